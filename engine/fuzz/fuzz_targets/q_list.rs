#![no_main]
mod common;
use arbitrary::Unstructured;
use libfuzzer_sys::fuzz_target;
use mayverif::case::{Case, Op};
use mayverif::fam::queues::*;

fuzz_target!(|data: &[u8]| {
    let mut u = Unstructured::new(data);
    let np = u.int_in_range(1..=3usize).unwrap_or(1);
    let mut actors = vec![];
    for _ in 0..np {
        let n = u.int_in_range(0..=12usize).unwrap_or(0);
        actors.push(common::actor(0, vec![Op(PUSH, 0, 0); n]));
    }
    actors.push(common::actor(1, common::ops(&mut u, 40, &[POP, POP, POP, POP, POP_IF, POP_IF, PEEK, REMOVE, REMOVE, REMOVE, REMOVE, EMPTY, YIELD])));
    let sched = common::schedule(&mut u);
    common::execute(Case { fam: "q_list".into(), workers: 1, pool: 1, feat: 0, cfg: vec![0], actors, sched, weak: 0 }, run_list);
});
