#![no_main]
mod common;
use arbitrary::Unstructured;
use libfuzzer_sys::fuzz_target;
use mayverif::case::Case;
use mayverif::fam::queues::*;

fuzz_target!(|data: &[u8]| {
    let mut u = Unstructured::new(data);
    let api = if u.ratio(1, 4).unwrap_or(false) { 1i64 } else { 0 };
    let offset = match u.int_in_range(0..=2u8).unwrap_or(0) {
        0 => u.int_in_range(0..=70i64).unwrap_or(0),
        b => (b as i64 - 1) * 32 + 31 - u.int_in_range(0..=11i64).unwrap_or(0),
    };
    let mut actors = vec![common::actor(0, common::ops(&mut u, 140, &[PUSH, PUSH, PUSH, POP]))];
    let ns = u.int_in_range(1..=3usize).unwrap_or(1);
    for _ in 0..ns {
        actors.push(common::actor(1, common::ops(&mut u, 14, &[STEAL, STEAL, STEAL, STEAL, BULK, BULK, EMPTY, YIELD])));
    }
    let sched = common::schedule(&mut u);
    common::execute(Case { fam: "q_spmc".into(), workers: 1, pool: 1, feat: 0, cfg: vec![api, offset], actors, sched, weak: 0 }, run_spmc);
});
