#![no_main]
mod common;
use arbitrary::Unstructured;
use libfuzzer_sys::fuzz_target;
use mayverif::case::Case;
use mayverif::fam::queues::*;

fuzz_target!(|data: &[u8]| {
    let mut u = Unstructured::new(data);
    let kind = u.int_in_range(0..=1i64).unwrap_or(0);
    let np = if kind == 0 { u.int_in_range(1..=3usize).unwrap_or(1) } else { 1 };
    let block = if kind == 0 { 64 } else { 32 };
    let offset = match u.int_in_range(0..=3u8).unwrap_or(0) {
        0 => u.int_in_range(0..=130i64).unwrap_or(0),
        b => (b as i64 - 1) * block + block - 1 - u.int_in_range(0..=11i64).unwrap_or(0),
    };
    let left = if u.ratio(1, 3).unwrap_or(false) { u.int_in_range(1..=40i64).unwrap_or(0) } else { 0 };
    let mut actors = vec![];
    for _ in 0..np {
        actors.push(common::actor(0, common::ops(&mut u, 40, &[PUSH, PUSH, PUSH, PUSH, PUSH, PUSH, PUSH, YIELD])));
    }
    actors.push(common::actor(1, common::ops(&mut u, 50, &[POP, POP, POP, POP, BULK, BULK, PEEK, LEN, EMPTY, YIELD])));
    let sched = common::schedule(&mut u);
    common::execute(Case { fam: "q_mpsc".into(), workers: 1, pool: 1, feat: 0, cfg: vec![kind, offset, left], actors, sched, weak: 0 }, run_fifo);
});
