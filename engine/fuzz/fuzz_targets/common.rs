// shared by the three targets: bytes -> Case (hand decoded with arbitrary::Unstructured), run the
// family in-process under the baton scheduler, abort with a marker line on a violation
use arbitrary::Unstructured;
use mayverif::case::{Actor, Case, Op};
use mayverif::sched::{self, Seg};

pub fn schedule(u: &mut Unstructured) -> Vec<Seg> {
    let n = u.int_in_range(0..=40u8).unwrap_or(0);
    let mut v = vec![];
    for _ in 0..n {
        let run: u16 = match u.int_in_range(0..=5u8).unwrap_or(0) {
            0..=2 => u.int_in_range(0..=3u16).unwrap_or(0),
            3..=4 => u.int_in_range(0..=39u16).unwrap_or(0),
            _ => u.int_in_range(0..=1500u16).unwrap_or(0),
        };
        v.push(Seg { run, pick: u.arbitrary().unwrap_or(0), stall_ms: 0 });
    }
    v
}

pub fn ops(u: &mut Unstructured, max: usize, table: &[u8]) -> Vec<Op> {
    let n = u.int_in_range(0..=max).unwrap_or(0);
    (0..n)
        .map(|_| {
            let k = u.int_in_range(0..=table.len() - 1).unwrap_or(0);
            Op(table[k], u.int_in_range(0..=65535u32).unwrap_or(0), u.int_in_range(0..=1u32).unwrap_or(0))
        })
        .collect()
}

pub fn actor(role: u8, ops: Vec<Op>) -> Actor {
    Actor { ctx: 0, role, ops }
}

pub fn execute(case: Case, run: fn(&Case) -> mayverif::case::Outcome) {
    sched::set_abort_on_die(true);
    sched::init(3_000_000);
    sched::start_exploring(case.sched.clone());
    let out = run(&case);
    sched::stop_exploring();
    if let Some(fp) = out.violation {
        eprintln!("MAYVERIF-VIOLATION {fp} :: {} :: CASE {}", out.detail, case.to_json());
        std::process::abort();
    }
}
