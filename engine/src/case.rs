//! the generated case: configuration + program + schedule (DESIGN.md 2.1)
use crate::sched::Seg;
use serde::{Deserialize, Serialize};

/// one operation of an actor: family specific op code and two arguments
#[derive(Clone, Debug, PartialEq, Eq, Hash, Serialize, Deserialize)]
pub struct Op(pub u8, pub u32, pub u32);

#[derive(Clone, Debug, PartialEq, Eq, Hash, Serialize, Deserialize)]
pub struct Actor {
    /// 0 = OS thread, 1 = coroutine
    pub ctx: u8,
    /// family specific role
    pub role: u8,
    pub ops: Vec<Op>,
}

#[derive(Clone, Debug, PartialEq, Eq, Hash, Serialize, Deserialize)]
pub struct Case {
    pub fam: String,
    /// may::config: number of workers, pool capacity
    pub workers: u8,
    pub pool: u8,
    /// 0 = default features (work stealing), 1 = work stealing off
    pub feat: u8,
    /// family specific scalars
    pub cfg: Vec<i64>,
    pub actors: Vec<Actor>,
    pub sched: Vec<Seg>,
    /// 1 = store buffering: non-SeqCst stores of may's atomics may be re-ordered after later
    /// loads of the same thread (sched.rs); 0 = sequentially consistent interleavings only
    #[serde(default, skip_serializing_if = "is_zero")]
    pub weak: u8,
}

fn is_zero(v: &u8) -> bool {
    *v == 0
}

impl Case {
    pub fn to_json(&self) -> String {
        serde_json::to_string(self).unwrap()
    }
    pub fn from_json(s: &str) -> Result<Case, String> {
        serde_json::from_str(s).map_err(|e| e.to_string())
    }
    pub fn hash64(&self) -> u64 {
        use std::hash::{Hash, Hasher};
        let mut h = std::collections::hash_map::DefaultHasher::new();
        self.hash(&mut h);
        h.finish()
    }
    pub fn cfg(&self, i: usize) -> i64 {
        self.cfg.get(i).copied().unwrap_or(0)
    }
    pub fn has_stall(&self) -> bool {
        self.sched.iter().any(|s| s.stall_ms > 0)
    }
}

/// outcome of a scenario, produced inside the child
pub struct Outcome {
    /// None = ok, Some(fingerprint) = violation
    pub violation: Option<String>,
    pub detail: String,
    /// feature flags that were actually observed in this run (for the class histogram and
    /// the non-triviality rule)
    pub flags: Vec<&'static str>,
    pub nontrivial: bool,
    /// numbers worth reporting
    pub nums: Vec<(&'static str, i64)>,
}

impl Outcome {
    pub fn new() -> Outcome {
        Outcome { violation: None, detail: String::new(), flags: vec![], nontrivial: false, nums: vec![] }
    }
    /// record a violation; the first one wins (it is the one closest to the cause)
    pub fn fail(&mut self, fp: &str, detail: String) {
        if self.violation.is_none() {
            self.violation = Some(fp.to_string());
            self.detail = detail;
        }
    }
    pub fn flag(&mut self, f: &'static str) {
        if !self.flags.contains(&f) {
            self.flags.push(f);
        }
    }
    pub fn flag_if(&mut self, c: bool, f: &'static str) {
        if c {
            self.flag(f);
        }
    }
    pub fn num(&mut self, k: &'static str, v: i64) {
        self.nums.push((k, v));
    }
}
