//! generators shared by all families: runtime configuration and schedules (DESIGN.md 2.2)
use crate::sched::Seg;
use proptest::prelude::*;

#[derive(Clone, Debug)]
pub struct GenCfg {
    pub thorough: bool,
    /// feature set of the child binary this runner drives (0 default, 1 work stealing off)
    pub feat: u8,
    /// median number of schedule points of a schedule-free case of this family (calibrated
    /// by the driver at the start of the run); used to place sparse change points
    pub steps_hint: u32,
    /// generate the inputs that are known to hit open findings as well
    pub include_known: bool,
}

/// (workers, pool capacity, feature set)
pub fn config(g: &GenCfg) -> impl Strategy<Value = (u8, u8, u8)> {
    let feat = g.feat;
    let wmax = if g.thorough { 4u8 } else { 3u8 };
    (1u8..=wmax, prop_oneof![1u8..=2, 3u8..=8]).prop_map(move |(w, p)| (w, p, feat))
}

fn seg(stalls: bool, run: BoxedStrategy<u16>) -> BoxedStrategy<Seg> {
    let stall = if stalls { prop_oneof![4 => Just(0u8), 1 => 1u8..40].boxed() } else { Just(0u8).boxed() };
    (run, any::<u8>(), stall).prop_map(|(run, pick, stall_ms)| Seg { run, pick, stall_ms }).boxed()
}

/// the schedule mixture: empty / dense prefix / sparse change points (PCT like)
pub fn schedule(g: &GenCfg, stalls: bool) -> BoxedStrategy<Vec<Seg>> {
    let dense_run = prop_oneof![3 => 0u16..4, 2 => 0u16..40, 1 => 0u16..400].boxed();
    let dense = proptest::collection::vec(seg(stalls, dense_run.clone()), 0..40);
    let l = g.steps_hint.clamp(50, 60_000) as u16;
    let far = seg(stalls, (0u16..l).boxed());
    let near = proptest::collection::vec(seg(stalls, (0u16..6).boxed()), 1..4);
    let sparse = proptest::collection::vec((far, near), 1..4).prop_map(|v| {
        let mut out = vec![];
        for (f, n) in v {
            out.push(f);
            out.extend(n);
        }
        out
    });
    // a dense burst somewhere in the middle of the run
    let mid = (seg(false, (0u16..l).boxed()), proptest::collection::vec(seg(stalls, dense_run), 1..20)).prop_map(|(f, mut d)| {
        let mut out = vec![f];
        out.append(&mut d);
        out
    });
    let base = prop_oneof![1 => Just(vec![]), 5 => dense, 3 => sparse, 2 => mid];
    // one schedule in five runs its fair tail with a quantum of 1-5 points instead of 40
    let base = (base, prop_oneof![4 => Just(0u8), 1 => 1u8..6]).prop_map(|(mut b, q)| {
        if q > 0 {
            b.push(Seg { run: crate::sched::QUANTUM, pick: q, stall_ms: 0 });
        }
        b
    });
    if !stalls {
        return base.boxed();
    }
    // timer-arm stall faults (sched::ARM): the thread that arms the k-th timer of the case is
    // descheduled right afterwards for longer or shorter than typical time-outs
    let arm = (prop_oneof![3 => 0u8..4, 2 => 4u8..16, 1 => 16u8..64], prop_oneof![1u8..4, 1u8..40]).prop_map(|(k, ms)| Seg { run: crate::sched::ARM, pick: k, stall_ms: ms });
    (base, prop_oneof![2 => Just(vec![]).boxed(), 1 => proptest::collection::vec(arm, 1..3).boxed()])
        .prop_map(|(mut b, a)| {
            b.extend(a);
            b
        })
        .boxed()
}

/// durations used by the timed families, in ns: 0, sub-ms, non-integral ms, whole ms, seconds, hours
pub fn duration_ns(include_known: bool) -> BoxedStrategy<u64> {
    if include_known {
        prop_oneof![
            1 => Just(0u64),
            2 => 1u64..1_000_000,
            3 => 1_000_000u64..20_000_000,
            3 => (1u64..40).prop_map(|ms| ms * 1_000_000),
            1 => (1u64..5).prop_map(|s| s * 1_000_000_000),
            1 => (1u64..3).prop_map(|h| h * 3_600_000_000_000),
            // "for every duration": the largest ones (Duration::MAX is cut to u64::MAX ns)
            1 => prop_oneof![Just(u64::MAX), Just(u64::MAX - 1_000_000_000), Just(1u64 << 63), (0u64..1_000_000).prop_map(|x| u64::MAX / 2 + x)],
        ]
        .boxed()
    } else {
        prop_oneof![
            6 => (1u64..40).prop_map(|ms| ms * 1_000_000),
            1 => (1u64..5).prop_map(|s| s * 1_000_000_000),
            1 => (1u64..3).prop_map(|h| h * 3_600_000_000_000),
        ]
        .boxed()
    }
}
