//! Deterministic serialising scheduler ("baton"): exactly one registered OS thread runs at
//! a time, switches happen only at hook points, every choice comes from the generated
//! schedule, blocking and time are virtual. See DESIGN.md 1.1, 2.2, 3.1 and A.2.
use std::cell::Cell;
use std::collections::HashMap;
use std::panic::Location;
use std::sync::atomic::{AtomicBool, AtomicU64, AtomicUsize, Ordering};
use std::sync::{Arc, Condvar, Mutex, MutexGuard};

#[derive(Clone, Copy, Debug, PartialEq)]
pub enum St {
    Runnable,
    Blocked { key: usize, deadline: Option<u64>, bg: bool },
    Finished,
}

pub struct Th {
    pub name: String,
    pub st: St,
    pub cv: Arc<Condvar>,
    pub np: u32,
    pub notified: bool,
    pub probed: bool,
}

/// one schedule segment: at the next decision point pick `runnable[pick*len>>8]`, let it run
/// for `run` schedule points; if that pre-empts the current thread and `stall_ms>0` the
/// pre-empted thread additionally sleeps for `stall_ms` virtual ms (stall fault)
#[derive(Clone, Copy, Debug, PartialEq, Eq, Hash, serde::Serialize, serde::Deserialize)]
#[serde(from = "(u16, u8, u8)", into = "(u16, u8, u8)")]
pub struct Seg {
    pub run: u16,
    pub pick: u8,
    pub stall_ms: u8,
}

impl From<(u16, u8, u8)> for Seg {
    fn from(t: (u16, u8, u8)) -> Seg {
        Seg { run: t.0, pick: t.1, stall_ms: t.2 }
    }
}
impl From<Seg> for (u16, u8, u8) {
    fn from(s: Seg) -> Self {
        (s.run, s.pick, s.stall_ms)
    }
}

pub struct Sched {
    pub th: Vec<Th>,
    pub cur: usize,
    pub clock: u64,
    pub tick_total: u64,
    pub steps: u64,
    pub switches: u64,
    pub preempts: u64,
    pub stalls: u64,
    pub exploring: bool,
    pub schedule: Vec<Seg>,
    pub seg_idx: usize,
    pub run_left: u64,
    pub useful: u64,
    pub probe_mark: u64,
    pub max_steps: u64,
    pub sites: HashMap<(&'static str, u32), u64>,
    pub psites: Vec<(&'static str, u32)>,
    pub quantum: u64,
    pub pending_stall: u64,
    /// timer-arm stall faults: (index of the arm event, virtual ms), see `ARM`
    pub arm_stalls: Vec<(u8, u8)>,
    pub arms: u64,
    pub last_tick_thread: usize,
    pub consec: u64,
    pub deadline_waiters: usize,
    pub progress_steps: u64,
    pub progress_clock: u64,
    pub progress_mark: u64,
}

static SCHED: Mutex<Option<Sched>> = Mutex::new(None);
/// family supplied description of the actors, used by the deadlock / budget verdicts:
/// returns (fingerprint part, free text)
#[allow(clippy::type_complexity)]
pub static DUMP: Mutex<Option<Box<dyn Fn() -> (String, String) + Send>>> = Mutex::new(None);
static TRACE: AtomicBool = AtomicBool::new(false);
static STAMP: AtomicU64 = AtomicU64::new(1);
thread_local! { static TID: Cell<usize> = const { Cell::new(usize::MAX) }; }

/// key used for stall faults
const STALL_KEY: usize = 3;

// ---------------------------------------------------------------------------------------
// store buffering ("weak" cases): a non-SeqCst store to one of may's atomics may stay in
// the storing thread's (one entry) store buffer while that thread executes up to SB_LOADS
// later loads from other locations, i.e. the store is re-ordered after those loads - the
// one re-ordering x86-TSO performs and the Rust memory model allows for Release stores /
// Acquire loads. while a store is buffered its thread sees the new value and every other
// thread the old one:
//   mode A  memory holds the new value (so the owner's plain reads, moves and drops of the
//           object are right) and the hooked loads of other threads are answered with the
//           old value;
//   mode B  entered when another thread read-modify-writes the location: memory is put back
//           to the old value, the other thread operates on that, and the buffered value is
//           written when the buffer drains (the store is ordered after the RMW).
// the buffer drains before anything else its thread does (any hooked operation that is not
// a load, blocking, stall fault, end of the thread, harness boundaries), when SB_AGE
// schedule points have passed, and globally before any deallocation (nothing is written
// back into freed memory). only the thread holding the baton touches this state.
// ---------------------------------------------------------------------------------------
const SB_THREADS: usize = 64;
const SB_LOADS: u8 = 2;
const SB_AGE: u64 = 24;
#[derive(Clone, Copy)]
struct Pending {
    addr: usize,
    old: u64,
    new: u64,
    width: u8,
    mode_b: bool,
    loads: u8,
    step: u64,
}
struct Sb(std::cell::UnsafeCell<[Option<Pending>; SB_THREADS]>);
unsafe impl Sync for Sb {}
static SB: Sb = Sb(std::cell::UnsafeCell::new([None; SB_THREADS]));
static SB_PENDING: AtomicUsize = AtomicUsize::new(0);
static WEAK: AtomicBool = AtomicBool::new(false);
/// mirror of `Sched::cur` for code that must not take the scheduler lock
static CUR: AtomicUsize = AtomicUsize::new(0);
static SB_STEP: AtomicU64 = AtomicU64::new(0);
static SB_DELAYED: AtomicU64 = AtomicU64::new(0);

/// store buffering on/off for this case (set before the exploration starts)
pub fn set_weak(on: bool) {
    WEAK.store(on, Ordering::SeqCst);
}

/// number of stores that were re-ordered after at least one later load
pub fn sb_delayed() -> u64 {
    SB_DELAYED.load(Ordering::SeqCst)
}

#[allow(clippy::mut_from_ref)]
fn sb() -> &'static mut [Option<Pending>; SB_THREADS] {
    unsafe { &mut *SB.0.get() }
}

fn mem_read(addr: usize, width: u8) -> u64 {
    unsafe {
        match width {
            1 => (*(addr as *const std::sync::atomic::AtomicU8)).load(Ordering::SeqCst) as u64,
            _ => (*(addr as *const AtomicU64)).load(Ordering::SeqCst),
        }
    }
}

fn mem_write(addr: usize, width: u8, bits: u64) {
    unsafe {
        match width {
            1 => (*(addr as *const std::sync::atomic::AtomicU8)).store(bits as u8, Ordering::SeqCst),
            _ => (*(addr as *const AtomicU64)).store(bits, Ordering::SeqCst),
        }
    }
}

/// the buffered store of thread `t` becomes visible to everybody
fn sb_commit(t: usize) {
    if t < SB_THREADS {
        if let Some(p) = sb()[t].take() {
            SB_PENDING.fetch_sub(1, Ordering::Relaxed);
            if p.mode_b {
                mem_write(p.addr, p.width, p.new);
            }
            if p.loads > 0 {
                SB_DELAYED.fetch_add(1, Ordering::Relaxed);
            }
            if TRACE.load(Ordering::Relaxed) {
                eprintln!("   T{t} buffered store to {:x} ({} -> {}) visible after {} loads{}", p.addr, p.old, p.new, p.loads, if p.mode_b { ", written back" } else { "" });
            }
        }
    }
}

fn sb_commit_all() {
    if SB_PENDING.load(Ordering::Relaxed) != 0 {
        for t in 0..SB_THREADS {
            sb_commit(t);
        }
    }
}

/// the entry of another thread for this address, if any
fn sb_other(me: usize, addr: usize) -> Option<usize> {
    if SB_PENDING.load(Ordering::Relaxed) == 0 {
        return None;
    }
    (0..SB_THREADS).find(|&t| t != me && sb()[t].is_some_and(|p| p.addr == addr))
}

/// drain the calling thread's store buffer (harness boundaries, fences)
pub fn flush_own() {
    if SB_PENDING.load(Ordering::Relaxed) != 0 {
        let me = tid();
        if me == CUR.load(Ordering::Relaxed) {
            sb_commit(me);
        }
    }
}

/// called by the allocator before memory is freed: nothing may be written back into it
/// later, and no entry may outlive the object it belongs to
pub fn flush_before_free(ptr: usize, size: usize) {
    if SB_PENDING.load(Ordering::Relaxed) != 0 && tid() == CUR.load(Ordering::Relaxed) {
        for t in 0..SB_THREADS {
            if sb()[t].is_some_and(|p| p.addr >= ptr && p.addr < ptr + size) {
                sb_commit(t);
            }
        }
    }
}

fn store_hook(addr: usize, bits: u64, width: u8, seq_cst: bool, loc: &'static Location<'static>) -> bool {
    let normal = point_inner(loc);
    if !WEAK.load(Ordering::Relaxed) {
        return false;
    }
    let me = tid();
    // program order among the stores of one thread, coherence order among stores to one location
    sb_commit(me);
    if let Some(t) = sb_other(me, addr) {
        sb_commit(t);
    }
    if normal && !seq_cst && me < SB_THREADS {
        let old = mem_read(addr, width);
        sb()[me] = Some(Pending { addr, old, new: bits, width, mode_b: false, loads: 0, step: SB_STEP.load(Ordering::Relaxed) });
        SB_PENDING.fetch_add(1, Ordering::Relaxed);
    }
    // the shim writes the new value to memory (mode A)
    false
}

fn load_hook(addr: usize, width: u8, loc: &'static Location<'static>) -> Option<u64> {
    let normal = point_inner(loc);
    if SB_PENDING.load(Ordering::Relaxed) == 0 {
        return None;
    }
    let me = tid();
    // what this thread sees at `addr` right now
    let read = |me: usize| match sb_other(me, addr) {
        Some(t) => {
            let p = sb()[t].unwrap();
            if p.mode_b {
                None
            } else {
                Some(p.old)
            }
        }
        None => None,
    };
    if me < SB_THREADS {
        if let Some(p) = sb()[me].as_mut() {
            if p.addr == addr {
                // the owner sees its own store
                return if p.mode_b { Some(p.new) } else { None };
            }
            if !normal || p.loads >= SB_LOADS {
                sb_commit(me);
            } else {
                // the load is executed now, ahead of the buffered store. then the others get a
                // chance to run while the store is still invisible to them (this second
                // schedule point is what opens the store -> load re-ordering window)
                p.loads += 1;
                let v = read(me).unwrap_or_else(|| mem_read(addr, width));
                point_inner(loc);
                return Some(v);
            }
        }
    }
    read(me)
}

fn rmw_hook(addr: usize, loc: &'static Location<'static>) {
    point_inner(loc);
    if SB_PENDING.load(Ordering::Relaxed) == 0 {
        return;
    }
    let me = tid();
    sb_commit(me);
    if let Some(t) = sb_other(me, addr) {
        // the read-modify-write comes before the buffered store in the location's order
        let p = sb()[t].as_mut().unwrap();
        if !p.mode_b {
            mem_write(p.addr, p.width, p.old);
            p.mode_b = true;
        }
    }
}

/// every other hooked operation (queue operation, AtomicOption, ...) drains the buffer
fn point(loc: &'static Location<'static>) {
    point_inner(loc);
    flush_own();
}

#[inline(never)]
fn tid() -> usize {
    TID.with(|t| t.get())
}

pub fn my_tid() -> usize {
    tid()
}

/// logical time stamp for call/return logging (no schedule point inside)
#[inline]
pub fn stamp() -> u64 {
    STAMP.fetch_add(1, Ordering::SeqCst)
}

fn lock() -> MutexGuard<'static, Option<Sched>> {
    SCHED.lock().unwrap_or_else(|e| e.into_inner())
}

pub fn out(msg: &str) {
    use std::io::Write;
    let out = std::io::stdout();
    let mut o = out.lock();
    let _ = writeln!(o, "{msg}");
    let _ = o.flush();
}

static ABORT_ON_DIE: AtomicBool = AtomicBool::new(false);

/// in-process fuzz targets: a verdict of the scheduler (deadlock, budget) must end in abort()
/// so that libFuzzer keeps the input; the marker line says which one it was
pub fn set_abort_on_die(on: bool) {
    ABORT_ON_DIE.store(on, Ordering::SeqCst);
}

pub fn exit(code: i32) -> ! {
    if ABORT_ON_DIE.load(Ordering::SeqCst) {
        eprintln!("{}", if code == 2 { "MAYVERIF-BUDGET" } else { "MAYVERIF-VIOLATION scheduler-verdict" });
        std::process::abort();
    }
    unsafe { libc::_exit(code) }
}

pub fn die(code: i32, msg: &str) -> ! {
    out(msg);
    exit(code)
}

fn short(file: &'static str) -> &'static str {
    // keep the path below the repository root
    match file.find("/src/") {
        Some(p) => {
            let head = &file[..p];
            let start = head.rfind('/').map(|x| x + 1).unwrap_or(0);
            &file[start..]
        }
        None => file,
    }
}

impl Sched {
    fn runnable(&self) -> Vec<usize> {
        (0..self.th.len()).filter(|&i| self.th[i].st == St::Runnable).collect()
    }

    fn dump(&self) -> String {
        let mut s = String::new();
        for (i, t) in self.th.iter().enumerate() {
            let st = match t.st {
                St::Runnable => "run".to_string(),
                St::Finished => "fin".to_string(),
                St::Blocked { key, deadline, bg } => format!(
                    "blk(key={:x},dl={},bg={})",
                    key & 0xffff,
                    deadline.map(|d| d.to_string()).unwrap_or_else(|| "-".into()),
                    bg as u8
                ),
            };
            s.push_str(&format!("[{i}:{}:{st}]", t.name));
        }
        s
    }

    fn stats_json(&self) -> String {
        let mut ps: Vec<String> = vec![];
        for (f, l) in self.psites.iter().take(24) {
            ps.push(format!("\"{}:{}\"", short(f), l));
        }
        format!(
            "{{\"steps\":{},\"switches\":{},\"preempts\":{},\"stalls\":{},\"vtime_ns\":{},\"tick_ns\":{},\"sites\":{},\"segs_used\":{},\"threads\":{},\"psites\":[{}]}}",
            self.steps,
            self.switches,
            self.preempts,
            self.stalls,
            self.clock - T0,
            self.tick_total,
            self.sites.len(),
            self.seg_idx,
            self.th.len(),
            ps.join(",")
        )
    }

    /// returns the first foreground thread whose timed wait has just expired
    fn wake_expired(&mut self, include_bg: bool, count_useful: bool) -> Option<usize> {
        let clock = self.clock;
        let mut woken = None;
        for (i, t) in self.th.iter_mut().enumerate() {
            if let St::Blocked { deadline: Some(d), bg, .. } = t.st {
                if d <= clock && (include_bg || !bg) {
                    t.st = St::Runnable;
                    t.notified = false;
                    if bg {
                        t.probed = true;
                    } else {
                        if count_useful {
                            self.useful += 1;
                        }
                        if woken.is_none() {
                            woken = Some(i);
                        }
                    }
                }
            }
        }
        woken
    }

    /// choose the next thread to run among runnable ones, advancing virtual time if needed
    fn pick_next(&mut self) -> usize {
        self.pick(true)
    }

    /// the next runnable thread in round-robin order, without consuming a schedule segment
    fn pick_next_fair(&mut self) -> usize {
        self.pick(false)
    }

    fn pick(&mut self, use_seg: bool) -> usize {
        loop {
            let r = self.runnable();
            if !r.is_empty() {
                if use_seg && self.exploring && self.seg_idx < self.schedule.len() {
                    let seg = self.schedule[self.seg_idx];
                    self.seg_idx += 1;
                    self.run_left = seg.run as u64;
                    self.pending_stall = seg.stall_ms as u64 * 1_000_000;
                    return r[(seg.pick as usize * r.len()) >> 8];
                }
                // fair fallback: round robin with a quantum
                self.run_left = self.quantum;
                self.pending_stall = 0;
                let cur = self.cur;
                return *r.iter().find(|&&t| t > cur).unwrap_or(&r[0]);
            }
            // nobody can run: advance the virtual clock
            let mut min_bg = None;
            let mut min_fg = None;
            for t in &self.th {
                if let St::Blocked { deadline: Some(d), bg, .. } = t.st {
                    let m = if bg { &mut min_bg } else { &mut min_fg };
                    *m = Some(m.map_or(d, |x: u64| x.min(d)));
                }
            }
            // is the last probe round fruitless?
            let all_probed = self
                .th
                .iter()
                .all(|t| !matches!(t.st, St::Blocked { bg: true, deadline: Some(_), .. }) || t.probed);
            let fruitless = self.useful == self.probe_mark && all_probed;
            if fruitless && min_fg.is_none() && min_bg.is_some() && GRACE.load(Ordering::SeqCst) > 0 {
                // give the kernel real time and probe once more
                GRACE.fetch_sub(1, Ordering::SeqCst);
                std::thread::sleep(std::time::Duration::from_millis(50));
                for t in self.th.iter_mut() {
                    t.probed = false;
                }
                let b = min_bg.unwrap();
                if b > self.clock {
                    self.clock = b;
                }
                self.wake_expired(true, true);
                continue;
            }
            let target = match (min_fg, min_bg) {
                (None, None) => self.deadlock(),
                (None, Some(_)) if fruitless => self.deadlock(),
                (Some(f), Some(_)) if fruitless => f,
                (Some(f), Some(b)) => f.min(b),
                (Some(f), None) => f,
                (None, Some(b)) => b,
            };
            if self.useful != self.probe_mark {
                self.probe_mark = self.useful;
                for t in self.th.iter_mut() {
                    t.probed = false;
                }
            }
            if target > self.clock {
                self.clock = target;
            }
            self.wake_expired(true, true);
        }
    }

    fn deadlock(&self) -> ! {
        let (fp, extra) = DUMP
            .lock()
            .unwrap_or_else(|e| e.into_inner())
            .as_ref()
            .map(|f| f())
            .unwrap_or_default();
        out(&format!("STATS {}", self.stats_json()));
        out(&format!("DETAIL clock={} threads={} actors={}", self.clock - T0, self.dump(), extra));
        die(3, &format!("VERDICT deadlock {fp}"))
    }

    fn livelock(&self) -> ! {
        let (fp, extra) = DUMP.lock().unwrap_or_else(|e| e.into_inner()).as_ref().map(|f| f()).unwrap_or_default();
        let mut v: Vec<_> = self.sites.iter().collect();
        v.sort_by_key(|e| std::cmp::Reverse(*e.1));
        let top: Vec<String> = v.iter().take(6).map(|((f, l), c)| format!("{}:{l}={c}", short(f))).collect();
        // the spinning code: the files of the three hottest sites
        let mut files: Vec<&str> = v.iter().take(3).map(|((f, _), _)| short(f)).collect();
        files.sort();
        files.dedup();
        out(&format!("STATS {}", self.stats_json()));
        out(&format!("DETAIL spinning for {} virtual s without progress; threads={} top={:?} actors={}", (self.clock - self.progress_clock) / 1_000_000_000, self.dump(), top, extra));
        die(3, &format!("VERDICT deadlock livelock[{}] {fp}", files.join("+")))
    }

    fn budget(&self) -> ! {
        let mut v: Vec<_> = self.sites.iter().collect();
        v.sort_by_key(|e| std::cmp::Reverse(*e.1));
        let top: Vec<String> = v.iter().take(8).map(|((f, l), c)| format!("{}:{l}={c}", short(f))).collect();
        out(&format!("STATS {}", self.stats_json()));
        out(&format!("DETAIL threads={} top={:?}", self.dump(), top));
        die(2, "VERDICT budget steps")
    }
}

/// virtual time at which every case starts
pub const T0: u64 = 1_000_000_000;

fn switch_to(mut g: MutexGuard<'static, Option<Sched>>, me: usize, next: usize, wait: bool) {
    {
        let s = g.as_mut().unwrap();
        if next != me {
            s.switches += 1;
            s.cur = next;
            CUR.store(next, Ordering::SeqCst);
            s.th[next].cv.notify_one();
        }
    }
    if !wait || next == me {
        return;
    }
    let cv = g.as_ref().unwrap().th[me].cv.clone();
    while g.as_ref().unwrap().cur != me {
        g = cv.wait(g).unwrap_or_else(|e| e.into_inner());
    }
}


/// a schedule point of the calling thread. returns false if it was not a real one (scheduler
/// not exploring, no-preempt region, unregistered thread)
fn point_inner(loc: &'static Location<'static>) -> bool {
    let me = tid();
    if me == usize::MAX {
        return false;
    }
    let mut g = lock();
    let s = match g.as_mut() {
        Some(s) => s,
        None => return false,
    };
    if s.cur != me {
        // a thread that is running without the baton: harness trouble, never a verdict
        die(2, &format!("VERDICT budget harness-baton me={me} cur={}", s.cur));
    }
    if !s.exploring || s.th[me].np > 0 {
        return false;
    }
    // store buffers drain with time: a buffered store of a thread that has not run for
    // SB_AGE schedule points becomes visible now
    if SB_PENDING.load(Ordering::Relaxed) != 0 {
        let now = s.steps;
        for t in 0..SB_THREADS.min(s.th.len()) {
            if t != me {
                if let Some(p) = sb()[t] {
                    if now.saturating_sub(p.step) > SB_AGE {
                        sb_commit(t);
                    }
                }
            }
        }
    }
    SB_STEP.store(s.steps + 1, Ordering::Relaxed);
    if TRACE.load(Ordering::Relaxed) {
        eprintln!("T{me} {}:{} clock={}", short(loc.file()), loc.line(), s.clock - T0);
    }
    s.steps += 1;
    // execution takes (virtual) time, so stalled or sleeping threads come back while others
    // spin. adaptive tick: a thread that keeps running alone while somebody waits for a
    // deadline makes virtual time pass faster and faster; any monotone advance is legal
    if s.last_tick_thread == me {
        s.consec += 1;
    } else {
        s.last_tick_thread = me;
        s.consec = 0;
    }
    let tick = 100u64 << (s.consec / 64).min(14);
    s.clock += tick;
    s.tick_total += tick;
    let woken = s.wake_expired(false, true);
    *s.sites.entry((loc.file(), loc.line())).or_insert(0) += 1;
    if s.steps > s.max_steps {
        s.budget();
    }
    // livelock: no useful event (coroutine resume, effective notify, thread start/finish,
    // expired foreground wait) for more than 50000 schedule points AND 60 virtual seconds,
    // although every sleeper, stalled thread and idle worker has come back many times
    if s.useful != s.progress_mark {
        s.progress_mark = s.useful;
        s.progress_steps = s.steps;
        s.progress_clock = s.clock;
    } else if s.steps - s.progress_steps > 50_000 && s.clock - s.progress_clock > 60_000_000_000 {
        s.livelock();
    }
    // in the fair tail (segments used up) a thread whose sleep or timed wait has just expired
    // gets the processor at once, as after a timer interrupt: events that were placed at a
    // point in time (a cancel 300 ns after its target entered an operation, a post at a
    // waiter's deadline) happen there and not up to a quantum later
    if let Some(w) = woken {
        if s.seg_idx >= s.schedule.len() && w != me && s.th[w].st == St::Runnable {
            s.run_left = s.quantum;
            s.pending_stall = 0;
            s.preempts += 1;
            if s.psites.len() < 64 {
                s.psites.push((loc.file(), loc.line()));
            }
            switch_to(g, me, w, true);
            return true;
        }
    }
    if s.run_left > 0 {
        s.run_left -= 1;
        return true;
    }
    s.pending_stall = 0;
    let next = s.pick_next();
    if next != me {
        s.preempts += 1;
        if s.psites.len() < 64 {
            s.psites.push((loc.file(), loc.line()));
        }
        if s.pending_stall > 0 {
            // fault injection: the pre-empted thread is stalled for a while (virtual time)
            let d = s.clock + s.pending_stall;
            s.th[me].st = St::Blocked { key: STALL_KEY, deadline: Some(d), bg: false };
            s.stalls += 1;
            // a descheduled thread's store buffer drains
            sb_commit(me);
        }
    }
    s.pending_stall = 0;
    switch_to(g, me, next, true);
    true
}

pub fn block(key: usize, deadline: Option<u64>, bg: bool) -> bool {
    let me = tid();
    if me == usize::MAX {
        die(2, "VERDICT budget harness-block-from-unregistered-thread");
    }
    // a deadline at the end of time (a saturated huge duration) is no deadline
    let deadline = deadline.filter(|d| *d < (1u64 << 62));
    let mut g = lock();
    let s = g.as_mut().unwrap();
    if s.th[me].np != 0 {
        die(2, "VERDICT budget harness-block-inside-no-preempt");
    }
    // a thread that goes to sleep has drained its store buffer
    sb_commit(me);
    s.steps += 1;
    if s.steps > s.max_steps {
        s.budget();
    }
    if let Some(d) = deadline {
        if d <= s.clock && !bg {
            return false;
        }
    }
    s.th[me].st = St::Blocked { key, deadline, bg };
    s.th[me].notified = false;
    // blocking is not spinning
    s.consec = 0;
    s.pending_stall = 0;
    let next = s.pick_next();
    s.pending_stall = 0;
    switch_to(g, me, next, true);
    let g = lock();
    g.as_ref().unwrap().th[me].notified
}

pub fn notify(key: usize) {
    let mut g = lock();
    let s = match g.as_mut() {
        Some(s) => s,
        None => return,
    };
    for t in s.th.iter_mut() {
        if let St::Blocked { key: k, .. } = t.st {
            if k == key {
                t.st = St::Runnable;
                t.notified = true;
                s.useful += 1;
            }
        }
    }
}

/// a socket write / connect / close by a harness actor: the kernel makes the peer's fd ready
/// synchronously, a real idle worker would return from epoll_wait now. wake every idle
/// (background) waiter so that it looks at its epoll fd again
pub fn kick_idle() {
    let mut g = lock();
    let s = match g.as_mut() {
        Some(s) => s,
        None => return,
    };
    for t in s.th.iter_mut() {
        if let St::Blocked { bg: true, .. } = t.st {
            t.st = St::Runnable;
            t.notified = true;
            t.probed = false;
        }
    }
}

static GRACE: std::sync::atomic::AtomicUsize = std::sync::atomic::AtomicUsize::new(0);

/// loopback TCP: delivery through softirq is usually but not provably synchronous. a deadlock
/// verdict is re-confirmed after `n` real 50 ms pauses with another probe round each
pub fn set_deadlock_grace(n: usize) {
    GRACE.store(n, Ordering::SeqCst);
}

pub fn now_ns() -> u64 {
    lock().as_ref().map(|s| s.clock).unwrap_or(0)
}

/// (virtual clock, total tick time accounted to executed schedule points)
pub fn now_tick() -> (u64, u64) {
    lock().as_ref().map(|s| (s.clock, s.tick_total)).unwrap_or((0, 0))
}

pub fn event(kind: u32) {
    if kind == 2 {
        return timer_armed();
    }
    if let Some(s) = lock().as_mut() {
        s.useful += 1;
    }
}

/// the calling thread has just armed a timer: inject the stall fault generated for it, if any
fn timer_armed() {
    let me = tid();
    if me == usize::MAX {
        return;
    }
    let mut g = lock();
    let s = match g.as_mut() {
        Some(s) => s,
        None => return,
    };
    if !s.exploring || s.cur != me {
        return;
    }
    let k = s.arms;
    s.arms += 1;
    let ms = match s.arm_stalls.iter().find(|a| a.0 as u64 == k) {
        Some(a) => a.1 as u64,
        None => return,
    };
    if s.th[me].np > 0 {
        return;
    }
    if TRACE.load(Ordering::Relaxed) {
        eprintln!("T{me} stalled for {ms} ms after arming timer {k} clock={}", s.clock - T0);
    }
    let d = s.clock + ms * 1_000_000;
    s.th[me].st = St::Blocked { key: STALL_KEY, deadline: Some(d), bg: false };
    s.stalls += 1;
    s.consec = 0;
    sb_commit(me);
    // keep the current segment for whoever runs next
    let (run_left, pending) = (s.run_left, s.pending_stall);
    let next = s.pick_next_fair();
    s.run_left = run_left;
    s.pending_stall = pending;
    switch_to(g, me, next, true);
}

pub fn spawn_token(name: &'static str) -> usize {
    spawn_token_s(name.to_string())
}

pub fn spawn_token_s(name: String) -> usize {
    let mut g = lock();
    let s = g.as_mut().unwrap();
    s.th.push(Th {
        name,
        st: St::Runnable,
        cv: Arc::new(Condvar::new()),
        np: 0,
        notified: false,
        probed: false,
    });
    s.useful += 1;
    s.th.len() - 1
}

/// OS thread ids of the registered threads (for the blocked-in-system-call watchdog)
static OS_TID: [std::sync::atomic::AtomicI32; SB_THREADS] = [const { std::sync::atomic::AtomicI32::new(0) }; SB_THREADS];

fn record_os_tid(token: usize) {
    if token < SB_THREADS {
        OS_TID[token].store(unsafe { libc::syscall(libc::SYS_gettid) } as i32, Ordering::SeqCst);
    }
}

/// a thread of the child that is not under the scheduler: when no schedule point has been
/// executed for 3 s of real time and the thread that holds the baton sleeps inside a socket
/// system call, a worker is blocked for real in the kernel - the runtime has handed a
/// blocking file descriptor to its non-blocking io path. (a thread that is merely starved of
/// CPU is runnable and not inside such a call; the harness itself never blocks in these
/// calls.) this is a verdict, not a time-out: without it the case would only be killed by
/// the parent's wall clock and counted as inconclusive
pub fn start_watchdog() {
    std::thread::spawn(|| {
        let mut last = u64::MAX;
        let mut since = std::time::Instant::now();
        loop {
            std::thread::sleep(std::time::Duration::from_millis(250));
            let now = SB_STEP.load(Ordering::Relaxed);
            if now != last {
                last = now;
                since = std::time::Instant::now();
                continue;
            }
            if since.elapsed() < std::time::Duration::from_secs(3) {
                continue;
            }
            let cur = CUR.load(Ordering::SeqCst);
            let tid = if cur < SB_THREADS { OS_TID[cur].load(Ordering::SeqCst) } else { 0 };
            if tid == 0 {
                continue;
            }
            let sys = std::fs::read_to_string(format!("/proc/self/task/{tid}/syscall")).unwrap_or_default();
            let stat = std::fs::read_to_string(format!("/proc/self/task/{tid}/stat")).unwrap_or_default();
            let state = stat.rsplit(')').next().and_then(|r| r.split_whitespace().next()).unwrap_or("?").to_string();
            let nr: i64 = sys.split_whitespace().next().and_then(|x| x.parse().ok()).unwrap_or(-1);
            let name = match nr {
                0 => "read",
                1 => "write",
                19 => "readv",
                20 => "writev",
                42 => "connect",
                43 => "accept",
                288 => "accept4",
                44 => "sendto",
                45 => "recvfrom",
                46 => "sendmsg",
                47 => "recvmsg",
                _ => "",
            };
            if state == "S" && !name.is_empty() {
                out(&format!("DETAIL thread {cur} (os tid {tid}) holds the baton and has been sleeping in {name}() for 3 s of real time: {}", sys.trim()));
                die(1, &format!("VERDICT violation worker-blocked-in-system-call:{name}"));
            }
        }
    });
}

pub fn thread_begin(token: usize) {
    TID.with(|t| t.set(token));
    record_os_tid(token);
    let mut g = lock();
    let cv = g.as_ref().unwrap().th[token].cv.clone();
    while g.as_ref().unwrap().cur != token {
        g = cv.wait(g).unwrap_or_else(|e| e.into_inner());
    }
}

/// a runtime thread (worker, timer) is unwinding: it would keep the baton for ever
pub fn thread_died() {
    let me = tid();
    let g = lock();
    let name = g.as_ref().map(|s| s.th.get(me).map(|t| t.name.clone()).unwrap_or_default()).unwrap_or_default();
    if let Some(s) = g.as_ref() {
        out(&format!("STATS {}", s.stats_json()));
    }
    die(1, &format!("VERDICT violation runtime-thread-died:{name}"));
}

pub fn thread_end() {
    let me = tid();
    let mut g = lock();
    let s = g.as_mut().unwrap();
    sb_commit(me);
    s.th[me].st = St::Finished;
    s.useful += 1;
    let key = join_key(me);
    for t in s.th.iter_mut() {
        if let St::Blocked { key: k, .. } = t.st {
            if k == key {
                t.st = St::Runnable;
                t.notified = true;
            }
        }
    }
    s.pending_stall = 0;
    let next = s.pick_next();
    s.pending_stall = 0;
    switch_to(g, me, next, false);
}

pub fn join_key(t: usize) -> usize {
    0x7000_0000_0000_0001 + t * 2
}

pub fn is_finished(t: usize) -> bool {
    lock().as_ref().unwrap().th[t].st == St::Finished
}

pub fn yield_now() {
    let me = tid();
    if me == usize::MAX {
        return std::thread::yield_now();
    }
    let mut g = lock();
    let s = g.as_mut().unwrap();
    if s.th[me].np > 0 {
        return;
    }
    s.steps += 1;
    if s.steps > s.max_steps {
        s.budget();
    }
    // a yield always lets somebody else run if possible
    let mut r = s.runnable();
    if r.len() <= 1 {
        // nobody else can run: a yielding thread is waiting for somebody, let time pass
        // up to the earliest deadline (sleepers, stalled threads, idle workers)
        let mut min = None;
        for t in &s.th {
            if let St::Blocked { deadline: Some(d), .. } = t.st {
                min = Some(min.map_or(d, |x: u64| x.min(d)));
            }
        }
        match min {
            None => return,
            Some(d) => {
                if d > s.clock {
                    s.clock = d;
                }
                s.wake_expired(true, false);
            }
        }
        r = s.runnable();
        if r.len() <= 1 {
            return;
        }
    }
    s.pending_stall = 0;
    let mut next = s.pick_next();
    s.pending_stall = 0;
    if next == me {
        next = *r.iter().find(|&&t| t > me).unwrap_or(&r[0]);
    }
    switch_to(g, me, next, true);
}

pub fn np_enter() {
    let me = tid();
    if me == usize::MAX {
        return;
    }
    if let Some(s) = lock().as_mut() {
        s.th[me].np += 1;
    }
}

pub fn np_exit() {
    let me = tid();
    if me == usize::MAX {
        return;
    }
    if let Some(s) = lock().as_mut() {
        s.th[me].np -= 1;
    }
}

pub static HOOKS: may::verif::Hooks = may::verif::Hooks {
    point,
    block,
    notify,
    now_ns,
    event,
    spawn_token,
    thread_begin,
    thread_died,
    yield_now,
    np_enter,
    np_exit,
    store: store_hook,
    load: load_hook,
    rmw: rmw_hook,
    flush: flush_own,
};

/// register the calling thread as thread 0 and install the hooks
pub fn init(max_steps: u64) {
    TRACE.store(std::env::var_os("MV_TRACE").is_some(), Ordering::Relaxed);
    let mut g = lock();
    *g = Some(Sched {
        th: vec![Th {
            name: "main".into(),
            st: St::Runnable,
            cv: Arc::new(Condvar::new()),
            np: 0,
            notified: false,
            probed: false,
        }],
        cur: 0,
        clock: T0,
        tick_total: 0,
        steps: 0,
        switches: 0,
        preempts: 0,
        stalls: 0,
        exploring: false,
        schedule: vec![],
        seg_idx: 0,
        run_left: 0,
        useful: 0,
        probe_mark: 0,
        max_steps,
        sites: HashMap::new(),
        psites: vec![],
        quantum: 40,
        pending_stall: 0,
        arm_stalls: vec![],
        arms: 0,
        last_tick_thread: usize::MAX,
        consec: 0,
        deadline_waiters: 0,
        progress_steps: 0,
        progress_clock: T0,
        progress_mark: 0,
    });
    TID.with(|t| t.set(0));
    record_os_tid(0);
    drop(g);
    may::verif::install(&HOOKS);
}

/// a segment with this `run` value is not a segment but a timer-arm stall fault: the thread
/// that arms the `pick`-th timer of the case (sleep, park time-out, io time-out ...) is
/// descheduled for `stall_ms` virtual ms right after arming it
pub const ARM: u16 = u16::MAX;
/// a segment with this `run` value sets the quantum of the fair round-robin fallback that
/// takes over when the segments are used up to `pick` (1..) schedule points instead of 40:
/// fine grained interleaving for the whole case, so that aimed events (a cancel a few points
/// after its target entered an operation) really land within a few points
pub const QUANTUM: u16 = u16::MAX - 1;

pub fn start_exploring(schedule: Vec<Seg>) {
    let mut g = lock();
    let s = g.as_mut().unwrap();
    s.arm_stalls = schedule.iter().filter(|x| x.run == ARM && x.stall_ms > 0).map(|x| (x.pick, x.stall_ms)).collect();
    s.arms = 0;
    if let Some(q) = schedule.iter().find(|x| x.run == QUANTUM) {
        s.quantum = (q.pick as u64).max(1);
    }
    let schedule: Vec<Seg> = schedule.into_iter().filter(|x| x.run != ARM && x.run != QUANTUM).collect();
    s.schedule = schedule;
    s.seg_idx = 0;
    s.run_left = 0;
    s.exploring = true;
}

/// ends the current schedule segment at once: the next schedule point of the calling thread
/// takes a decision with the next segment. lets a generated case synchronise its schedule
/// with a phase boundary of its program ("hold the stealer exactly there until the owner has
/// done all of this") without guessing point counts
pub fn sync_point() {
    let mut g = lock();
    if let Some(s) = g.as_mut() {
        if s.exploring {
            s.run_left = 0;
        }
    }
}

pub fn stop_exploring() {
    let mut g = lock();
    let s = g.as_mut().unwrap();
    sb_commit_all();
    s.exploring = false;
}

pub fn stats_json() -> String {
    lock().as_ref().unwrap().stats_json()
}

pub fn preempts() -> u64 {
    lock().as_ref().unwrap().preempts
}

pub fn switches() -> u64 {
    lock().as_ref().unwrap().switches
}

/// pre-emption sites as (short file, line)
pub fn psites() -> Vec<(String, u32)> {
    lock().as_ref().unwrap().psites.iter().map(|(f, l)| (short(f).to_string(), *l)).collect()
}

/// did any pre-emption happen in a file whose path ends with `file`?
pub fn preempted_in(file: &str) -> bool {
    lock().as_ref().unwrap().psites.iter().any(|(f, _)| f.ends_with(file))
}

/// virtual sleep of a harness thread (never use in a coroutine)
pub fn vsleep(ns: u64) {
    let d = now_ns() + ns;
    let key = &d as *const _ as usize;
    while block(key, Some(d), false) {}
}

/// spawn a user thread under the scheduler
pub struct VJoin<T> {
    tid: usize,
    res: Arc<Mutex<Option<std::thread::Result<T>>>>,
    h: std::thread::JoinHandle<()>,
}

struct EndGuard;
impl Drop for EndGuard {
    fn drop(&mut self) {
        // registered first, so it runs after all the other thread local destructors
        thread_end();
    }
}
thread_local! { static END_GUARD: EndGuard = const { EndGuard }; }

pub fn vspawn<T: Send + 'static>(name: &str, f: impl FnOnce() -> T + Send + 'static) -> VJoin<T> {
    let tok = spawn_token_s(name.to_string());
    let res = Arc::new(Mutex::new(None));
    let res2 = res.clone();
    let h = std::thread::Builder::new()
        .stack_size(512 * 1024)
        .spawn(move || {
            END_GUARD.with(|_| {});
            thread_begin(tok);
            let r = std::panic::catch_unwind(std::panic::AssertUnwindSafe(f));
            *res2.lock().unwrap() = Some(r);
        })
        .unwrap();
    VJoin { tid: tok, res, h }
}

impl<T> VJoin<T> {
    pub fn join(self) -> std::thread::Result<T> {
        while !is_finished(self.tid) {
            block(join_key(self.tid), None, false);
        }
        self.h.join().unwrap();
        let r = self.res.lock().unwrap().take().unwrap();
        r
    }
    pub fn is_finished(&self) -> bool {
        is_finished(self.tid)
    }
}
