//! parent side: proptest runners, child management, shrinking, known findings, evidence
//! (DESIGN.md 2, 2.4, 2.5)
use crate::case::Case;
use crate::fam::{self, Prop, Unit};
use crate::gen::GenCfg;
use proptest::prelude::*;
use proptest::strategy::ValueTree;
use proptest::test_runner::{Config, RngAlgorithm, TestCaseError, TestError, TestRng, TestRunner};
use serde_json::{json, Value};
use std::collections::{BTreeMap, HashMap, HashSet};
use std::path::{Path, PathBuf};
use std::process::{Command, Stdio};
use std::sync::atomic::{AtomicBool, AtomicU64, Ordering};
use std::sync::{Arc, Mutex};
use std::time::{Duration, Instant};

pub const CHILD_WALL_LIMIT: Duration = Duration::from_secs(20);

#[derive(Clone, Debug, PartialEq)]
pub enum Verdict {
    Ok,
    /// oracle violation, deadlock or crash; the string is the fingerprint ("violation x",
    /// "deadlock y", "crash SIGSEGV")
    Bad(String),
    /// budget, wall-clock kill, harness trouble: never a violation
    Inconclusive(String),
}

#[derive(Clone, Debug)]
pub struct ChildResult {
    pub verdict: Verdict,
    pub detail: String,
    pub report: Value,
    pub stats: Value,
    pub wall_ms: u128,
}

// ---------------------------------------------------------------------------------------
// watchdog: kills children that run for longer than the wall limit
// ---------------------------------------------------------------------------------------
static WATCH: Mutex<Vec<(u32, Instant)>> = Mutex::new(Vec::new());
static WATCHDOG_STARTED: AtomicBool = AtomicBool::new(false);

fn watchdog_start() {
    if WATCHDOG_STARTED.swap(true, Ordering::SeqCst) {
        return;
    }
    std::thread::spawn(|| loop {
        std::thread::sleep(Duration::from_millis(200));
        let now = Instant::now();
        let w = WATCH.lock().unwrap();
        for (pid, t) in w.iter() {
            if now.duration_since(*t) > CHILD_WALL_LIMIT {
                unsafe { libc::kill(*pid as i32, libc::SIGKILL) };
            }
        }
    });
}

pub struct Bins {
    pub ws: PathBuf,
    pub nows: PathBuf,
}

impl Bins {
    pub fn for_feat(&self, feat: u8) -> &Path {
        if feat == 1 {
            &self.nows
        } else {
            &self.ws
        }
    }
}

/// run one case in a fresh child process
pub fn exec_child(bin: &Path, case: &Case, wrapper: &[String], show_stderr: bool) -> ChildResult {
    watchdog_start();
    let t0 = Instant::now();
    let mut cmd = if wrapper.is_empty() {
        Command::new(bin)
    } else {
        let mut c = Command::new(&wrapper[0]);
        c.args(&wrapper[1..]).arg(bin);
        c
    };
    cmd.arg("child").arg(case.to_json());
    cmd.stdin(Stdio::null()).stdout(Stdio::piped());
    cmd.stderr(if show_stderr { Stdio::inherit() } else { Stdio::piped() });
    cmd.env_remove("MV_TRACE_PARENT");
    let mut ch = match cmd.spawn() {
        Ok(c) => c,
        Err(e) => {
            return ChildResult {
                verdict: Verdict::Inconclusive(format!("spawn-failed {e}")),
                detail: String::new(),
                report: Value::Null,
                stats: Value::Null,
                wall_ms: 0,
            }
        }
    };
    let pid = ch.id();
    WATCH.lock().unwrap().push((pid, t0));
    // both pipes are drained concurrently
    let outp = ch.wait_with_output();
    WATCH.lock().unwrap().retain(|(p, _)| *p != pid);
    // a child of the net families that was killed or ended by a violation leaves the
    // paths of its unix listeners behind (fam/net.rs `unix_path`)
    if case.fam.starts_with("net") {
        for conn in [0usize, 1, 2, 3, 4, 99] {
            let _ = std::fs::remove_file(format!("/tmp/mv-{pid}-{conn}.sock"));
        }
    }
    let (so, se, status) = match outp {
        Ok(o) => (String::from_utf8_lossy(&o.stdout).to_string(), String::from_utf8_lossy(&o.stderr).to_string(), Ok(o.status)),
        Err(e) => (String::new(), String::new(), Err(e)),
    };
    let wall_ms = t0.elapsed().as_millis();
    let mut vline = String::new();
    let mut detail = String::new();
    let mut report = Value::Null;
    let mut stats = Value::Null;
    for l in so.lines() {
        if let Some(r) = l.strip_prefix("VERDICT ") {
            vline = r.to_string();
        } else if let Some(r) = l.strip_prefix("DETAIL ") {
            detail = r.to_string();
        } else if let Some(r) = l.strip_prefix("REPORT ") {
            report = serde_json::from_str(r).unwrap_or(Value::Null);
        } else if let Some(r) = l.strip_prefix("STATS ") {
            stats = serde_json::from_str(r).unwrap_or(Value::Null);
        }
    }
    use std::os::unix::process::ExitStatusExt;
    let verdict = match status {
        Err(e) => Verdict::Inconclusive(format!("wait-failed {e}")),
        Ok(st) => {
            if let Some(sig) = st.signal() {
                if sig == libc::SIGKILL && t0.elapsed() >= CHILD_WALL_LIMIT {
                    Verdict::Inconclusive("wall-clock-kill".into())
                } else {
                    let name = match sig {
                        libc::SIGSEGV => "SIGSEGV",
                        libc::SIGABRT => "SIGABRT",
                        libc::SIGBUS => "SIGBUS",
                        libc::SIGILL => "SIGILL",
                        libc::SIGFPE => "SIGFPE",
                        libc::SIGKILL => "SIGKILL",
                        _ => "signal",
                    };
                    if sig == libc::SIGKILL {
                        Verdict::Inconclusive("killed".into())
                    } else {
                        // what the runtime said before it died is part of the fingerprint
                        detail = se.lines().rev().take(6).collect::<Vec<_>>().into_iter().rev().collect::<Vec<_>>().join(" | ");
                        Verdict::Bad(format!("crash {name} {}", crash_kind(&se)))
                    }
                }
            } else {
                let code = st.code().unwrap_or(-1);
                let kind = vline.split(' ').next().unwrap_or("").to_string();
                match (code, kind.as_str()) {
                    (0, "ok") => Verdict::Ok,
                    (1, "violation") | (3, "deadlock") => Verdict::Bad(vline.clone()),
                    (2, _) => Verdict::Inconclusive(vline.clone()),
                    (9, _) if !wrapper.is_empty() => Verdict::Bad("memcheck invalid-access".into()),
                    (c, _) => {
                        // a panic or abort outside any verdict: the main thread of the child died
                        detail = se.lines().rev().take(6).collect::<Vec<_>>().into_iter().rev().collect::<Vec<_>>().join(" | ");
                        Verdict::Bad(format!("child-exit code={c} {}", crash_kind(&se)))
                    }
                }
            }
        }
    };
    ChildResult { verdict, detail, report, stats, wall_ms }
}

/// a stable word for what the child printed on stderr before it died
fn crash_kind(se: &str) -> &'static str {
    if se.contains("panic in a destructor during cleanup") {
        "panic-in-destructor-during-unwind"
    } else if se.contains("non-unwinding panic") {
        "non-unwinding-panic"
    } else if se.contains("panicked while processing panic") || se.contains("panicked while panicking") {
        "double-panic"
    } else if se.contains("stack overflow") {
        "stack-overflow"
    } else if se.contains("free(): ") || se.contains("malloc") || se.contains("corrupted") || se.contains("tcache") {
        "heap-corruption"
    } else if se.contains("panicked at") {
        "panic"
    } else {
        "unknown"
    }
}

// ---------------------------------------------------------------------------------------
// known findings
// ---------------------------------------------------------------------------------------
#[derive(Clone, Debug, serde::Deserialize)]
pub struct Finding {
    pub property: String,
    /// other properties whose checks may run into the same defect
    #[serde(default)]
    pub also: Vec<String>,
    pub name: String,
    /// glob over the fingerprint ("deadlock receiver/co:recv*")
    pub fingerprint: String,
    /// what fails, printed in the KNOWN-FINDING line
    pub what: String,
    /// stored replay (relative to /verif)
    #[serde(default)]
    pub replay: String,
    /// scenario family the fingerprint belongs to (empty = any)
    #[serde(default)]
    pub family: String,
}

#[derive(Clone, Debug, Default, serde::Deserialize)]
pub struct Known {
    #[serde(default)]
    pub open: Vec<Finding>,
    #[serde(default)]
    pub fixed: Vec<String>,
}

pub fn glob(pat: &str, s: &str) -> bool {
    // '*' matches any run of characters
    let parts: Vec<&str> = pat.split('*').collect();
    if parts.len() == 1 {
        return pat == s;
    }
    let mut pos = 0usize;
    for (i, p) in parts.iter().enumerate() {
        if p.is_empty() {
            continue;
        }
        if i == 0 {
            if !s.starts_with(p) {
                return false;
            }
            pos = p.len();
        } else if i == parts.len() - 1 {
            return s.len() >= pos + p.len() && s[pos..].ends_with(p);
        } else {
            match s[pos..].find(p) {
                Some(k) => pos += k + p.len(),
                None => return false,
            }
        }
    }
    true
}

impl Known {
    pub fn load(verif: &Path) -> Known {
        match std::fs::read_to_string(verif.join("known_findings.json")) {
            Ok(s) => serde_json::from_str(&s).unwrap_or_else(|e| {
                eprintln!("known_findings.json does not parse: {e}");
                std::process::exit(2)
            }),
            Err(_) => Known::default(),
        }
    }
    pub fn matching(&self, prop: &str, fam: &str, fp: &str) -> Option<&Finding> {
        self.open
            .iter()
            .find(|f| (f.property == prop || f.also.iter().any(|a| a == prop)) && (f.family.is_empty() || f.family == fam) && glob(&f.fingerprint, fp))
    }
}

// ---------------------------------------------------------------------------------------
// memory-safety oracle: valgrind memcheck, addressability only, heap-block reports only
// (DESIGN.md section 4)
// ---------------------------------------------------------------------------------------
pub struct VgResult {
    /// fingerprint of the first trusted report, if any
    pub report: Option<(String, String)>,
    pub untrusted: u64,
    pub child: ChildResult,
}

fn frame_fn(line: &str) -> Option<String> {
    // "==123==    by 0x33AC22: may::cancel::CancelImpl<T>::set_co (cancel.rs:162)"
    let l = line.split(": ").nth(1)?;
    let name = l.split(" (").next()?.trim();
    if !(name.contains("may::") || name.contains("may_queue::")) {
        return None;
    }
    // strip generic arguments and closure decorations
    let mut out = String::new();
    let mut depth = 0;
    for ch in name.chars() {
        match ch {
            '<' => depth += 1,
            '>' => depth -= 1,
            _ if depth == 0 => out.push(ch),
            _ => {}
        }
    }
    let out = out.replace("::{closure#0}", "").replace(" as ", "-as-");
    Some(out.split_whitespace().collect::<Vec<_>>().join(""))
}

pub fn exec_valgrind(bin: &Path, case: &Case) -> VgResult {
    let args: Vec<String> = ["timeout", "-s", "KILL", "180", "valgrind", "--undef-value-errors=no", "-q", "--num-callers=24", "--error-exitcode=0"].iter().map(|s| s.to_string()).collect();
    let t0 = Instant::now();
    let out = Command::new(&args[0]).args(&args[1..]).arg(bin).arg("child").arg(case.to_json()).stdin(Stdio::null()).stdout(Stdio::piped()).stderr(Stdio::piped()).output();
    let (so, se) = match out {
        Ok(o) => (String::from_utf8_lossy(&o.stdout).to_string(), String::from_utf8_lossy(&o.stderr).to_string()),
        Err(e) => (String::new(), format!("valgrind failed to start: {e}")),
    };
    let mut vline = String::new();
    let mut detail = String::new();
    for l in so.lines() {
        if let Some(r) = l.strip_prefix("VERDICT ") {
            vline = r.to_string();
        } else if let Some(r) = l.strip_prefix("DETAIL ") {
            detail = r.to_string();
        }
    }
    let verdict = match vline.split(' ').next().unwrap_or("") {
        "ok" => Verdict::Ok,
        "violation" | "deadlock" => Verdict::Bad(vline.clone()),
        _ => Verdict::Inconclusive(format!("valgrind-run {vline}")),
    };
    let mut report = None;
    let mut untrusted = 0;
    // reports are separated by a line "==pid== "
    let mut block: Vec<&str> = vec![];
    let mut blocks: Vec<Vec<&str>> = vec![];
    for l in se.lines() {
        let body = l.splitn(3, "==").nth(2).unwrap_or("");
        if body.trim().is_empty() {
            if !block.is_empty() {
                blocks.push(std::mem::take(&mut block));
            }
        } else {
            block.push(l);
        }
    }
    if !block.is_empty() {
        blocks.push(block);
    }
    for b in blocks {
        let head = b.iter().find(|l| l.contains("Invalid ") || l.contains("Mismatched") || l.contains("ump or move"));
        let head = match head {
            Some(h) => h,
            None => continue,
        };
        let heap = b.iter().any(|l| l.contains("free'd") || l.contains("alloc'd"));
        // the access stack is everything before the "Address ..." line
        let access: Vec<&str> = b.iter().take_while(|l| !l.contains("Address 0x")).cloned().collect();
        let frames: Vec<String> = access.iter().filter_map(|l| frame_fn(l)).collect();
        if heap && !frames.is_empty() {
            if report.is_none() {
                let kind = if head.contains("write") { "invalid-write" } else if head.contains("read") { "invalid-read" } else { "invalid-free" };
                let fp = format!("memcheck {kind} {}", frames.iter().take(2).cloned().collect::<Vec<_>>().join("<-"));
                let text: String = b.iter().filter(|l| l.contains("Invalid") || l.contains("Address") || l.contains("may") || l.contains("Block was")).take(14).map(|l| l.splitn(3, "==").nth(2).unwrap_or("").trim().chars().take(160).collect::<String>()).collect::<Vec<_>>().join(" | ");
                report = Some((fp, text));
            }
        } else {
            // coroutine-stack memory or foreign frames: logged, never reported
            untrusted += 1;
        }
    }
    VgResult { report, untrusted, child: ChildResult { verdict, detail, report: Value::Null, stats: Value::Null, wall_ms: t0.elapsed().as_millis() } }
}

// ---------------------------------------------------------------------------------------
// search
// ---------------------------------------------------------------------------------------
#[derive(Default)]
pub struct Shared {
    pub evaluations: u64,
    pub shrink_evaluations: u64,
    pub nontrivial: HashSet<u64>,
    pub distinct: HashSet<u64>,
    pub classes: BTreeMap<String, u64>,
    pub inconclusive: u64,
    pub inconclusive_kinds: BTreeMap<String, u64>,
    pub known_hits: BTreeMap<String, u64>,
    pub samples: Vec<Value>,
    pub steps: Vec<u64>,
    pub preempts: Vec<u64>,
    pub psites: HashSet<String>,
    pub failures: Vec<Failure>,
    pub by_unit: BTreeMap<String, u64>,
    pub by_feat: BTreeMap<String, u64>,
    pub slow_ms_max: u128,
    /// passing non-trivial cases kept for the valgrind sample (per runner quota)
    pub vg_sample: Vec<Case>,
    pub vg_runs: u64,
    pub vg_reports_untrusted: u64,
}

#[derive(Clone, Debug)]
pub struct Failure {
    pub case: Case,
    pub fp: String,
    pub detail: String,
    pub stats: Value,
    pub unit: String,
    pub runner: usize,
    pub shrunk: bool,
}

pub struct RunCfg {
    pub prop: &'static Prop,
    pub thorough: bool,
    pub seed: u64,
    pub verif: PathBuf,
    pub bins: Bins,
    pub jobs: usize,
    pub cases_override: Option<u32>,
    pub include_known: bool,
    pub no_valgrind: bool,
    pub no_fuzz: bool,
    pub fuzz_runs: Option<u64>,
}

fn seed_bytes(seed: u64, prop: &str, unit: &str, runner: usize) -> [u8; 32] {
    // a small, explicit mixing function: the run is a pure function of (tree, seed, tier)
    let mut h: u64 = 0xcbf2_9ce4_8422_2325 ^ seed.wrapping_mul(0x9e37_79b9_7f4a_7c15);
    for b in prop.bytes().chain(unit.bytes()).chain((runner as u64).to_le_bytes()) {
        h ^= b as u64;
        h = h.wrapping_mul(0x1000_0000_01b3);
    }
    let mut out = [0u8; 32];
    for i in 0..4 {
        h ^= h >> 29;
        h = h.wrapping_mul(0xbf58_476d_1ce4_e5b9);
        out[i * 8..i * 8 + 8].copy_from_slice(&h.to_le_bytes());
    }
    out
}

fn record(shared: &Mutex<Shared>, case: &Case, r: &ChildResult, unit: &str, shrinking: bool) {
    let mut s = shared.lock().unwrap();
    if shrinking {
        s.shrink_evaluations += 1;
        return;
    }
    s.evaluations += 1;
    *s.by_unit.entry(unit.to_string()).or_insert(0) += 1;
    *s.by_feat.entry(if case.feat == 1 { "no_work_steal" } else { "default" }.to_string()).or_insert(0) += 1;
    let h = case.hash64();
    s.distinct.insert(h);
    if r.wall_ms > s.slow_ms_max {
        s.slow_ms_max = r.wall_ms;
    }
    if let Some(st) = r.stats.get("steps").and_then(|v| v.as_u64()) {
        s.steps.push(st);
    }
    if let Some(p) = r.stats.get("preempts").and_then(|v| v.as_u64()) {
        s.preempts.push(p);
    }
    if let Some(ps) = r.stats.get("psites").and_then(|v| v.as_array()) {
        for p in ps {
            if let Some(p) = p.as_str() {
                s.psites.insert(p.to_string());
            }
        }
    }
    if let Some(flags) = r.report.get("flags").and_then(|v| v.as_array()) {
        for f in flags {
            if let Some(f) = f.as_str() {
                *s.classes.entry(f.to_string()).or_insert(0) += 1;
            }
        }
    }
    if case.has_stall() {
        *s.classes.entry("stall_fault_in_schedule".into()).or_insert(0) += 1;
    }
    let nontrivial = r.report.get("nontrivial").and_then(|v| v.as_bool()).unwrap_or(false);
    if nontrivial && s.nontrivial.insert(h) && s.samples.len() < 5 {
        s.samples.push(json!({"case": case, "verdict": format!("{:?}", r.verdict), "report": r.report, "stats": r.stats}));
    }
    if let Verdict::Inconclusive(k) = &r.verdict {
        if s.inconclusive < 5 {
            // keep a few for harness debugging (never evidence of anything)
            let _ = std::fs::create_dir_all("/verif/replays/found");
            let _ = std::fs::write(
                format!("/verif/replays/found/INCONCLUSIVE-{}-{:08x}.json", case.fam, h as u32),
                serde_json::to_string(&json!({"case": case, "verdict": k, "detail": r.detail, "stats": r.stats})).unwrap(),
            );
        }
        s.inconclusive += 1;
        let k = k.split(' ').take(2).collect::<Vec<_>>().join(" ");
        *s.inconclusive_kinds.entry(k).or_insert(0) += 1;
    }
}

fn run_unit_runner(cfg: &RunCfg, unit: &Unit, runner_idx: usize, cases: u32, feat: u8, steps_hint: u32, known: &Known, shared: &Arc<Mutex<Shared>>, stop: &Arc<AtomicBool>) {
    let g = GenCfg { thorough: cfg.thorough, feat, steps_hint, include_known: cfg.include_known };
    let strat = (unit.strategy)(&g);
    // one case in four of the families that run on the may runtime is a store buffering case
    let strat = (strat, 0u8..4).prop_map(|(mut c, w)| {
        if w == 3 && crate::fam::FAMILIES.iter().any(|f| f.name == c.fam && f.runtime) {
            c.weak = 1;
        }
        c
    });
    let rng = TestRng::from_seed(RngAlgorithm::ChaCha, &seed_bytes(cfg.seed, cfg.prop.id, unit.label, runner_idx));
    let mut runner = TestRunner::new_with_rng(
        Config { cases, failure_persistence: None, max_shrink_iters: 3000, max_global_rejects: 65536, ..Config::default() },
        rng,
    );
    // fingerprint of the first failure of this runner: shrinking sticks to it
    let first_fp: Mutex<Option<(String, String, Value)>> = Mutex::new(None);
    let bin = cfg.bins.for_feat(feat).to_path_buf();
    // memcheck sample: the first passing non-trivial cases of every runner (a deterministic
    // function of seed and tree, not of time)
    let vg_quota = Mutex::new(if cfg.no_valgrind { 0u32 } else if cfg.thorough { 25 } else { 2 });
    // shrinking is bounded by iterations (3000) and by wall time: a failure whose every
    // re-execution takes seconds of real time (a worker blocked in the kernel) would
    // otherwise be minimised for half an hour. the bound only affects how small the replay
    // file gets, never the verdict
    let shrink_started: Mutex<Option<std::time::Instant>> = Mutex::new(None);
    let res = runner.run(&strat, |case| {
        let shrinking = first_fp.lock().unwrap().is_some();
        if !shrinking && stop.load(Ordering::SeqCst) {
            return Ok(());
        }
        if shrinking {
            let mut st = shrink_started.lock().unwrap();
            if st.get_or_insert_with(std::time::Instant::now).elapsed() > Duration::from_secs(90) {
                return Ok(());
            }
        }
        if let Some((i, v)) = dev_filter() {
            // development aid only (MV_FILTER=cfg<i>=<v>): look at one sub-family
            if case.cfg(i) != v {
                return Ok(());
            }
        }
        let r = exec_child(&bin, &case, &[], false);
        if r.wall_ms > std::env::var("MV_SLOWLOG").ok().and_then(|v| v.parse().ok()).unwrap_or(u128::MAX) && std::env::var_os("MV_SLOWLOG").is_some() {
            eprintln!("SLOW {} ms {:?} {}", r.wall_ms, r.verdict, case.to_json());
        }
        record(shared, &case, &r, unit.label, shrinking);
        if !shrinking && r.verdict == Verdict::Ok && r.report.get("nontrivial").and_then(|v| v.as_bool()).unwrap_or(false) {
            let mut q = vg_quota.lock().unwrap();
            if *q > 0 {
                *q -= 1;
                shared.lock().unwrap().vg_sample.push(case.clone());
            }
        }
        match &r.verdict {
            Verdict::Ok | Verdict::Inconclusive(_) => Ok(()),
            Verdict::Bad(fp) => {
                if let Some(f) = known.matching(cfg.prop.id, &case.fam, fp) {
                    if !shrinking {
                        *shared.lock().unwrap().known_hits.entry(f.name.clone()).or_insert(0) += 1;
                    }
                    return Ok(());
                }
                let mut ff = first_fp.lock().unwrap();
                match ff.as_ref() {
                    None => {
                        *ff = Some((fp.clone(), r.detail.clone(), r.stats.clone()));
                        Err(TestCaseError::fail(fp.clone()))
                    }
                    Some((f0, _, _)) if f0 == fp => {
                        *ff = Some((fp.clone(), r.detail.clone(), r.stats.clone()));
                        Err(TestCaseError::fail(fp.clone()))
                    }
                    // a different failure met while shrinking: not the one we are minimising
                    Some(_) => Ok(()),
                }
            }
        }
    });
    if let Err(TestError::Fail(_reason, case)) = res {
        stop.store(true, Ordering::SeqCst);
        let (fp, _detail, _stats) = first_fp.lock().unwrap().clone().unwrap();
        // re-run the shrunk case once to get its own detail and stats
        let r = exec_child(&bin, &case, &[], false);
        let (detail, stats) = (r.detail.clone(), r.stats.clone());
        let still = matches!(&r.verdict, Verdict::Bad(f) if *f == fp);
        shared.lock().unwrap().failures.push(Failure { case, fp, detail, stats, unit: unit.label.to_string(), runner: runner_idx, shrunk: still });
    }
}

fn dev_filter() -> Option<(usize, i64)> {
    let f = std::env::var("MV_FILTER").ok()?;
    let f = f.strip_prefix("cfg")?;
    let (i, v) = f.split_once('=')?;
    Some((i.parse().ok()?, v.parse().ok()?))
}

fn calibrate(cfg: &RunCfg, unit: &Unit) -> u32 {
    // median step count of 32 schedule-free cases (a deterministic function of code and seed)
    let g = GenCfg { thorough: cfg.thorough, feat: 0, steps_hint: 2000, include_known: false };
    let strat = (unit.strategy)(&g);
    let rng = TestRng::from_seed(RngAlgorithm::ChaCha, &seed_bytes(cfg.seed, cfg.prop.id, unit.label, 9999));
    let mut runner = TestRunner::new_with_rng(Config { failure_persistence: None, ..Config::default() }, rng);
    let mut cases = vec![];
    for _ in 0..32 {
        let mut c = strat.new_tree(&mut runner).unwrap().current();
        c.sched.clear();
        cases.push(c);
    }
    let bin = cfg.bins.for_feat(0).to_path_buf();
    let steps: Vec<u64> = std::thread::scope(|s| {
        let hs: Vec<_> = cases
            .chunks(4)
            .map(|ch| {
                let bin = bin.clone();
                s.spawn(move || ch.iter().filter_map(|c| exec_child(&bin, c, &[], false).stats.get("steps").and_then(|v| v.as_u64())).collect::<Vec<_>>())
            })
            .collect();
        hs.into_iter().flat_map(|h| h.join().unwrap()).collect()
    });
    let mut st = steps;
    st.sort();
    if st.is_empty() {
        2000
    } else {
        (st[st.len() / 2] as u32).max(50)
    }
}

fn pct(v: &mut [u64], p: f64) -> u64 {
    if v.is_empty() {
        return 0;
    }
    v.sort();
    v[((v.len() - 1) as f64 * p) as usize]
}

pub fn tree_id() -> String {
    let rev = Command::new("git").args(["-C", "/repo", "rev-parse", "--short", "HEAD"]).output().ok().map(|o| String::from_utf8_lossy(&o.stdout).trim().to_string()).unwrap_or_default();
    let dirty = Command::new("git").args(["-C", "/repo", "status", "--porcelain", "--untracked-files=no"]).output().ok().map(|o| !o.stdout.is_empty()).unwrap_or(false);
    format!("{rev}{}", if dirty { "+dirty" } else { "" })
}

fn fp_hash(s: &str) -> String {
    let mut h: u64 = 0xcbf2_9ce4_8422_2325;
    for b in s.bytes() {
        h ^= b as u64;
        h = h.wrapping_mul(0x1000_0000_01b3);
    }
    format!("{:08x}", (h ^ (h >> 32)) as u32)
}

pub fn write_replay(dir: &Path, prop: &str, f: &Failure, seed: u64, tier: &str) -> PathBuf {
    let _ = std::fs::create_dir_all(dir);
    let path = dir.join(format!("{prop}-{}-{}-{:08x}.json", f.case.fam, fp_hash(&f.fp), f.case.hash64() as u32));
    let v = json!({
        "property": prop,
        "family": f.case.fam,
        "fingerprint": f.fp,
        "detail": f.detail,
        "case": f.case,
        "stats": f.stats,
        "found": {"seed": seed, "tier": tier, "unit": f.unit, "runner": f.runner, "shrunk_case_reproduces": f.shrunk, "tree": tree_id()},
        "replay_cmd": format!("./check {prop} --replay {}", path.display()),
    });
    let _ = std::fs::write(&path, serde_json::to_string_pretty(&v).unwrap());
    path
}

pub fn load_replay(path: &Path) -> Result<Case, String> {
    let s = std::fs::read_to_string(path).map_err(|e| e.to_string())?;
    let v: Value = serde_json::from_str(&s).map_err(|e| e.to_string())?;
    let c = v.get("case").cloned().unwrap_or(v);
    serde_json::from_value(c).map_err(|e| e.to_string())
}

/// the whole check of one property; returns the process exit code
pub fn run_property(cfg: RunCfg) -> i32 {
    let t0 = Instant::now();
    let known = Known::load(&cfg.verif);
    let tier = if cfg.thorough { "thorough" } else { "quick" };
    let shared = Arc::new(Mutex::new(Shared::default()));
    let stop = Arc::new(AtomicBool::new(false));
    let mut violations: Vec<(String, PathBuf)> = vec![];
    let mut known_lines: Vec<String> = vec![];
    let mut assumptions: Vec<String> = vec![];

    // 1. regression replays (confirmed findings, fixed or not): the seconds-long replay tier
    let mut regress_run = 0;
    let rdir = cfg.verif.join("replays/regress");
    let mut files: Vec<PathBuf> = std::fs::read_dir(&rdir).map(|d| d.filter_map(|e| e.ok().map(|e| e.path())).collect()).unwrap_or_default();
    files.sort();
    for f in files {
        let name = f.file_name().unwrap().to_string_lossy().to_string();
        if !name.starts_with(cfg.prop.id) || !name.ends_with(".json") {
            continue;
        }
        let case = match load_replay(&f) {
            Ok(c) => c,
            Err(e) => {
                eprintln!("cannot load {}: {e}", f.display());
                return 2;
            }
        };
        regress_run += 1;
        let r = exec_child(cfg.bins.for_feat(case.feat), &case, &[], false);
        if let Verdict::Bad(fp) = &r.verdict {
            if known.matching(cfg.prop.id, &case.fam, fp).is_none() {
                println!("regression replay {} fails: {fp} {}", f.display(), r.detail);
                violations.push((fp.clone(), f.clone()));
            }
        }
    }

    // 2. open findings: replay the stored case; if it no longer reproduces, search for it
    for f in known.open.iter().filter(|f| f.property == cfg.prop.id) {
        let mut reproduced = false;
        if !f.replay.is_empty() {
            if let Ok(case) = load_replay(&cfg.verif.join(&f.replay)) {
                let r = exec_child(cfg.bins.for_feat(case.feat), &case, &[], false);
                if let Verdict::Bad(fp) = &r.verdict {
                    reproduced = glob(&f.fingerprint, fp);
                }
            }
        }
        if reproduced {
            known_lines.push(format!("KNOWN-FINDING: property={} {} [{}; stored replay {} reproduces]", f.property, f.what, f.name, f.replay));
        } else {
            known_lines.push(format!("KNOWN-FINDING: property={} {} [{}; stored replay does not reproduce on this tree, see search hits below]", f.property, f.what, f.name));
        }
    }

    // 3. the search
    let total_cases = cfg.cases_override.unwrap_or(if cfg.thorough { cfg.prop.thorough } else { cfg.prop.quick });
    let share_sum: u32 = cfg.prop.units.iter().map(|u| u.share).sum();
    let mut hints = BTreeMap::new();
    for unit in cfg.prop.units {
        let unit_cases = (total_cases as u64 * unit.share as u64 / share_sum as u64) as u32;
        let hint = calibrate(&cfg, unit);
        hints.insert(unit.label.to_string(), hint);
        let per = (unit_cases / cfg.jobs as u32).max(1);
        std::thread::scope(|s| {
            for i in 0..cfg.jobs {
                // both feature sets: 1 runner in 8 drives the binary without work stealing
                let feat = if i % 8 == 7 { 1 } else { 0 };
                let (cfg, known, shared, stop) = (&cfg, &known, &shared, &stop);
                s.spawn(move || run_unit_runner(cfg, unit, i, per, feat, hint, known, shared, stop));
            }
        });
        if stop.load(Ordering::SeqCst) {
            break;
        }
    }

    // 3b. memcheck on the sample of passing non-trivial cases
    let sample: Vec<Case> = std::mem::take(&mut shared.lock().unwrap().vg_sample);
    if !stop.load(Ordering::SeqCst) && !sample.is_empty() {
        let next = AtomicU64::new(0);
        std::thread::scope(|s| {
            for _ in 0..cfg.jobs {
                s.spawn(|| loop {
                    let i = next.fetch_add(1, Ordering::SeqCst) as usize;
                    if i >= sample.len() {
                        break;
                    }
                    let case = &sample[i];
                    let r = exec_valgrind(cfg.bins.for_feat(case.feat), case);
                    let mut sh = shared.lock().unwrap();
                    sh.vg_runs += 1;
                    sh.vg_reports_untrusted += r.untrusted;
                    let bad = match (&r.report, &r.child.verdict) {
                        (Some((fp, text)), _) => Some((fp.clone(), text.clone())),
                        (None, Verdict::Bad(fp)) => Some((fp.clone(), r.child.detail.clone())),
                        _ => None,
                    };
                    if let Some((fp, text)) = bad {
                        if let Some(f) = known.matching(cfg.prop.id, &case.fam, &fp) {
                            *sh.known_hits.entry(f.name.clone()).or_insert(0) += 1;
                        } else {
                            sh.failures.push(Failure { case: case.clone(), fp, detail: text, stats: Value::Null, unit: "memcheck-sample".into(), runner: i, shrunk: false });
                        }
                    }
                });
            }
        });
    }

    // 3c. E2: libFuzzer + ASan campaigns for the queue properties (thorough tier only)
    let mut fuzz_stats = json!({});
    if cfg.thorough && !stop.load(Ordering::SeqCst) && !cfg.no_fuzz {
        let targets: &[&str] = match cfg.prop.id {
            "C03" => &["q_fifo"],
            "C04" => &["q_spmc"],
            "C19" => &["q_list"],
            _ => &[],
        };
        for t in targets {
            let runs = cfg.fuzz_runs.unwrap_or(125_000);
            let r = run_fuzz(&cfg.verif, t, runs, cfg.jobs, cfg.seed);
            fuzz_stats[*t] = json!({"executions": r.execs, "inconclusive_artifacts": r.inconclusive, "violations": r.violations.len(), "note": r.note, "campaigns": "random seed corpus + empty corpus", "runs_per_job": runs});
            for (fp, path) in r.violations {
                if known.matching(cfg.prop.id, "fuzz", &fp).is_none() {
                    println!("violation: {fp}");
                    violations.push((fp, path));
                }
            }
            if !r.note.is_empty() {
                println!("fuzz {t}: {}", r.note);
            }
        }
    }

    // 4. verdicts
    let mut sh = shared.lock().unwrap();
    let mut seen = HashSet::new();
    let failures = sh.failures.clone();
    for f in failures.iter() {
        if !seen.insert(f.fp.clone()) {
            continue;
        }
        let path = write_replay(&cfg.verif.join("replays/found"), cfg.prop.id, f, cfg.seed, tier);
        println!("violation: {} :: {}", f.fp, f.detail);
        violations.push((f.fp.clone(), path));
    }
    for l in &known_lines {
        println!("{l}");
    }
    for (name, n) in sh.known_hits.iter() {
        println!("known finding {name}: hit by {n} generated cases (treated as passing, search continued)");
    }
    let incon_frac = sh.inconclusive as f64 / (sh.evaluations.max(1) as f64);
    assumptions.push("interleavings are sequentially consistent at the granularity of the hooked operations; code inside crossbeam, parking_lot, generator and the kernel executes atomically".into());
    assumptions.push("programs are bounded (see rule); absence of a violation in the generated cases is evidence, not proof".into());
    let mut steps = std::mem::take(&mut sh.steps);
    let mut pre = std::mem::take(&mut sh.preempts);
    let evidence = json!({
        "property_id": cfg.prop.id,
        "tier": tier,
        "seed": cfg.seed,
        "level": "exploration",
        "coverage": {
            "evaluations": sh.evaluations,
            "distinct_nontrivial": sh.nontrivial.len(),
            "rule": cfg.prop.rule,
            "samples": sh.samples,
            "distinct_cases": sh.distinct.len(),
            "shrink_evaluations": sh.shrink_evaluations,
            "regress_replays": regress_run,
            "memcheck_sample_runs": sh.vg_runs,
            "fuzz_e2": fuzz_stats,
            "memcheck_untrusted_reports_ignored": sh.vg_reports_untrusted,
            "classes": sh.classes,
            "by_unit": sh.by_unit,
            "by_feature_set": sh.by_feat,
            "inconclusive": sh.inconclusive,
            "inconclusive_kinds": sh.inconclusive_kinds,
            "known_finding_hits": sh.known_hits,
            "preemption_sites": sh.psites.len(),
            "steps_p50": pct(&mut steps, 0.5),
            "steps_p99": pct(&mut steps, 0.99),
            "preempts_p50": pct(&mut pre, 0.5),
            "preempts_p99": pct(&mut pre, 0.99),
            "steps_hint": hints,
            "slowest_case_ms": sh.slow_ms_max as u64,
            "tree": tree_id(),
            "jobs": cfg.jobs,
        },
        "assumptions": assumptions,
        "wall_s": t0.elapsed().as_secs_f64(),
        "violations": violations.len(),
    });
    let edir = cfg.verif.join("evidence");
    let _ = std::fs::create_dir_all(&edir);
    let _ = std::fs::write(edir.join(format!("{}.json", cfg.prop.id)), serde_json::to_string_pretty(&evidence).unwrap());
    println!(
        "{} {}: {} cases, {} distinct non-trivial, {} inconclusive, {} shrink runs, {:.1}s",
        cfg.prop.id,
        tier,
        sh.evaluations,
        sh.nontrivial.len(),
        sh.inconclusive,
        sh.shrink_evaluations,
        t0.elapsed().as_secs_f64()
    );
    if !violations.is_empty() {
        for (_fp, p) in &violations {
            println!("VIOLATION property={} replay={}", cfg.prop.id, p.display());
        }
        return 1;
    }
    if incon_frac > 0.01 {
        println!("more than 1% of the cases were inconclusive ({}): generator too heavy, check is broken", sh.inconclusive);
        return 2;
    }
    0
}

// ---------------------------------------------------------------------------------------
// E2: coverage-guided in-process fuzzing of the queues (libFuzzer + ASan), thorough tier
// ---------------------------------------------------------------------------------------
pub struct FuzzResult {
    pub execs: u64,
    pub violations: Vec<(String, PathBuf)>,
    pub inconclusive: u64,
    pub note: String,
}

fn fuzz_cmd(engine: &Path) -> Command {
    let mut c = Command::new("cargo");
    c.current_dir(engine).env("RUSTFLAGS", "--cfg may_verif").env("CARGO_NET_OFFLINE", "true").env("ASAN_OPTIONS", "detect_leaks=0:abort_on_error=1");
    c.arg("+nightly").arg("fuzz");
    c
}

pub fn run_fuzz(verif: &Path, target: &str, runs_per_job: u64, jobs: usize, seed: u64) -> FuzzResult {
    let engine = verif.join("engine");
    let mut res = FuzzResult { execs: 0, violations: vec![], inconclusive: 0, note: String::new() };
    let b = fuzz_cmd(&engine).args(["build", target]).output();
    match b {
        Ok(o) if o.status.success() => {}
        Ok(o) => {
            res.note = format!("fuzz build failed: {}", String::from_utf8_lossy(&o.stderr).lines().rev().take(5).collect::<Vec<_>>().join(" | "));
            return res;
        }
        Err(e) => {
            res.note = format!("fuzz build failed to start: {e}");
            return res;
        }
    }
    let work = engine.join("target").join("fuzzwork").join(target);
    let _ = std::fs::remove_dir_all(&work);
    // two campaigns: a corpus of random seed files, and the empty corpus (seed choice matters)
    for (ci, nseed) in [(0usize, 24usize), (1, 0)] {
        let corpus = work.join(format!("corpus{ci}"));
        let arts = work.join(format!("artifacts{ci}"));
        let logs = work.join(format!("logs{ci}"));
        for d in [&corpus, &arts, &logs] {
            let _ = std::fs::create_dir_all(d);
        }
        let mut x = seed.wrapping_mul(0x9e37_79b9_7f4a_7c15) | 1;
        for i in 0..nseed {
            let len = 40 + (i * 13) % 300;
            let bytes: Vec<u8> = (0..len)
                .map(|_| {
                    x ^= x << 13;
                    x ^= x >> 7;
                    x ^= x << 17;
                    (x >> 24) as u8
                })
                .collect();
            let _ = std::fs::write(corpus.join(format!("seed{i:02}")), bytes);
        }
        let out = fuzz_cmd(&engine)
            .current_dir(&logs)
            .env("CARGO_MANIFEST_DIR", &engine)
            .args(["run", "--fuzz-dir"])
            .arg(engine.join("fuzz"))
            .arg(target)
            .arg(&corpus)
            .arg("--")
            .arg(format!("-runs={runs_per_job}"))
            .arg(format!("-jobs={jobs}"))
            .arg(format!("-workers={jobs}"))
            .arg("-len_control=0")
            .arg("-max_len=400")
            .arg(format!("-seed={}", seed.max(1)))
            .arg(format!("-artifact_prefix={}/", arts.display()))
            .output();
        if let Err(e) = out {
            res.note = format!("fuzz run failed to start: {e}");
            return res;
        }
        // executions: "Done N runs" lines of the job logs
        if let Ok(rd) = std::fs::read_dir(&logs) {
            for e in rd.flatten() {
                if let Ok(t) = std::fs::read_to_string(e.path()) {
                    for l in t.lines() {
                        if let Some(r) = l.strip_prefix("Done ") {
                            res.execs += r.split(' ').next().and_then(|n| n.parse::<u64>().ok()).unwrap_or(0);
                        }
                    }
                }
            }
        }
        // artifacts: re-run each once to classify it
        if let Ok(rd) = std::fs::read_dir(&arts) {
            let mut files: Vec<PathBuf> = rd.flatten().map(|e| e.path()).collect();
            files.sort();
            for f in files {
                let o = fuzz_cmd(&engine).args(["run", target]).arg(&f).output();
                let se = o.map(|o| String::from_utf8_lossy(&o.stderr).to_string()).unwrap_or_default();
                if se.contains("MAYVERIF-BUDGET") {
                    res.inconclusive += 1;
                    continue;
                }
                let fp = if let Some(l) = se.lines().find(|l| l.starts_with("MAYVERIF-VIOLATION")) {
                    format!("fuzz {}", l.split(" :: ").next().unwrap_or(l).trim_start_matches("MAYVERIF-VIOLATION ").trim())
                } else if let Some(l) = se.lines().find(|l| l.contains("ERROR: AddressSanitizer")) {
                    format!("fuzz asan {}", l.split("AddressSanitizer: ").nth(1).unwrap_or("").split(' ').next().unwrap_or(""))
                } else if se.contains("timeout") || f.file_name().map(|n| n.to_string_lossy().starts_with("timeout")).unwrap_or(false) {
                    res.inconclusive += 1;
                    continue;
                } else {
                    "fuzz crash".to_string()
                };
                // keep the artifact where it survives the next run
                let keep = verif.join("replays/found").join(format!("fuzz-{target}-{}", f.file_name().unwrap().to_string_lossy()));
                let _ = std::fs::create_dir_all(keep.parent().unwrap());
                let _ = std::fs::copy(&f, &keep);
                res.violations.push((fp, keep));
            }
        }
    }
    res
}

/// replay one stored case; prints the verdict
pub fn replay(prop: &str, path: &Path, bins: &Bins, verif: &Path, valgrind: bool) -> i32 {
    let case = match load_replay(path) {
        Ok(c) => c,
        Err(e) => {
            eprintln!("cannot load {}: {e}", path.display());
            return 2;
        }
    };
    let wrapper: Vec<String> = if valgrind {
        ["valgrind", "--undef-value-errors=no", "--error-exitcode=9", "-q"].iter().map(|s| s.to_string()).collect()
    } else {
        vec![]
    };
    let r = exec_child(bins.for_feat(case.feat), &case, &wrapper, true);
    println!("verdict: {:?}", r.verdict);
    println!("detail: {}", r.detail);
    println!("stats: {}", r.stats);
    println!("report: {}", r.report);
    let known = Known::load(verif);
    match r.verdict {
        Verdict::Ok => 0,
        Verdict::Inconclusive(_) => 2,
        Verdict::Bad(fp) => {
            if let Some(f) = known.matching(prop, &case.fam, &fp) {
                println!("KNOWN-FINDING: property={prop} {} [{}]", f.what, f.name);
                0
            } else {
                println!("VIOLATION property={prop} replay={}", path.display());
                1
            }
        }
    }
}

#[allow(dead_code)]
pub fn unused(_: &HashMap<u8, u8>) {}
