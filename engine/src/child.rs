//! what runs inside the child process: one case, one verdict (DESIGN.md 2.3, A.3)
use crate::case::Case;
use crate::fam;
use crate::sched;
use std::sync::atomic::{AtomicBool, Ordering};
use std::sync::Mutex;

static RUNTIME: AtomicBool = AtomicBool::new(false);
pub static LAST_PANIC: Mutex<String> = Mutex::new(String::new());

fn warm_up(workers: usize, pool: usize) {
    may::config().set_workers(workers).set_pool_capacity(pool).set_stack_size(0x4000);
    may::config().set_worker_pin(false);
    // force the runtime to start and settle; exploration is still off
    let h = unsafe { may::coroutine::spawn(|| 1) };
    assert_eq!(h.join().unwrap(), 1);
    RUNTIME.store(true, Ordering::SeqCst);
}

/// let pending end-of-coroutine work run (virtual time passes, workers go idle)
pub fn settle() {
    if RUNTIME.load(Ordering::SeqCst) {
        may::coroutine::sleep(std::time::Duration::from_millis(2));
    }
}

pub fn run(case_json: &str) -> ! {
    let case = match Case::from_json(case_json) {
        Ok(c) => c,
        Err(e) => sched::die(2, &format!("VERDICT budget bad-case {e}")),
    };
    let fam = match fam::lookup(&case.fam) {
        Some(f) => f,
        None => sched::die(2, "VERDICT budget unknown-family"),
    };
    let trace = std::env::var_os("MV_TRACE").is_some();
    std::panic::set_hook(Box::new(move |info| {
        // generated panics and cancels are part of the programs: keep quiet, remember the last
        let msg = format!("{info}");
        // expected: generated panics and the Cancel payload (not a string); anything else is
        // worth a line on stderr, which the parent keeps for crash fingerprints
        let expected = msg.contains("mv-expected") || msg.contains("Box<dyn Any>");
        if trace || !expected {
            eprintln!("PANIC {}", msg.replace('\n', " "));
        }
        if let Ok(mut g) = LAST_PANIC.lock() {
            *g = msg;
        }
    }));
    sched::init(fam.max_steps);
    sched::start_watchdog();
    if fam.runtime {
        warm_up(case.workers.max(1) as usize, case.pool.max(1) as usize);
    }
    sched::set_weak(case.weak == 1 && fam.runtime);
    sched::start_exploring(case.sched.clone());
    let mut out = (fam.run)(&case);
    sched::stop_exploring();
    if case.weak == 1 && fam.runtime {
        out.flags.push("store_buffering");
        if sched::sb_delayed() > 0 {
            out.flags.push("store_reordered_after_load");
        }
    }
    let nums: serde_json::Map<String, serde_json::Value> = out.nums.iter().map(|(k, v)| (k.to_string(), serde_json::json!(v))).collect();
    let report = serde_json::json!({
        "flags": out.flags,
        "nontrivial": out.nontrivial,
        "nums": nums,
    });
    sched::out(&format!("REPORT {report}"));
    sched::out(&format!("STATS {}", sched::stats_json()));
    match out.violation {
        None => sched::die(0, "VERDICT ok"),
        Some(fp) => {
            sched::out(&format!("DETAIL {}", out.detail.replace('\n', " ")));
            sched::die(1, &format!("VERDICT violation {fp}"))
        }
    }
}
