//! `mv`: property-based verification engine for may (see /verif/DESIGN.md)
//!
//!   mv child <case json>                      run one case (used by the driver)
//!   mv run <PROP> [--thorough] [--seed N] [--cases N] [--jobs N] [--include-known]
//!   mv replay <PROP> <file> [--valgrind]
//!   mv gen <PROP> [--seed N] [-n N]            print generated cases (generator health)
#[global_allocator]
static ALLOC: mayverif::lifo::Lifo = mayverif::lifo::Lifo;


use mayverif::{child, driver, fam, gen};
use std::path::PathBuf;

fn bins() -> driver::Bins {
    // the two child binaries are built by ./check into engine/target/{ws,nows}
    let me = std::env::current_exe().unwrap();
    let ws = std::env::var_os("MV_BIN_WS").map(PathBuf::from).unwrap_or_else(|| me.clone());
    let nows = std::env::var_os("MV_BIN_NOWS").map(PathBuf::from).unwrap_or_else(|| me.clone());
    driver::Bins { ws, nows }
}

fn arg_val(args: &[String], name: &str) -> Option<String> {
    args.iter().position(|a| a == name).and_then(|i| args.get(i + 1).cloned())
}

fn main() {
    let args: Vec<String> = std::env::args().skip(1).collect();
    if args.is_empty() {
        eprintln!("usage: mv child|run|replay|gen ...");
        std::process::exit(2);
    }
    let verif = std::env::var_os("MV_VERIF").map(PathBuf::from).unwrap_or_else(|| PathBuf::from("/verif"));
    match args[0].as_str() {
        "child" => child::run(&args[1]),
        "run" => {
            let prop = match fam::prop(&args[1]) {
                Some(p) => p,
                None => {
                    eprintln!("unknown property {}", args[1]);
                    std::process::exit(2);
                }
            };
            let seed = arg_val(&args, "--seed")
                .or_else(|| std::env::var("VERIF_SEED").ok())
                .and_then(|s| s.parse::<u64>().ok())
                .unwrap_or(1);
            let thorough = args.iter().any(|a| a == "--thorough");
            let cfg = driver::RunCfg {
                prop,
                thorough,
                seed,
                verif,
                bins: bins(),
                jobs: arg_val(&args, "--jobs").and_then(|s| s.parse().ok()).unwrap_or(16),
                cases_override: arg_val(&args, "--cases").and_then(|s| s.parse().ok()),
                include_known: args.iter().any(|a| a == "--include-known"),
                no_valgrind: args.iter().any(|a| a == "--no-valgrind") || std::env::var_os("MV_NO_VALGRIND").is_some(),
                no_fuzz: args.iter().any(|a| a == "--no-fuzz"),
                fuzz_runs: arg_val(&args, "--fuzz-runs").and_then(|s| s.parse().ok()),
            };
            std::process::exit(driver::run_property(cfg));
        }
        "replay" => {
            let code = driver::replay(&args[1], &PathBuf::from(&args[2]), &bins(), &verif, args.iter().any(|a| a == "--valgrind"));
            std::process::exit(code);
        }
        "gen" => {
            use proptest::strategy::{Strategy, ValueTree};
            use proptest::test_runner::{Config, RngAlgorithm, TestRng, TestRunner};
            let prop = fam::prop(&args[1]).expect("unknown property");
            let seed: u64 = arg_val(&args, "--seed").and_then(|s| s.parse().ok()).unwrap_or(1);
            let n: usize = arg_val(&args, "-n").and_then(|s| s.parse().ok()).unwrap_or(5);
            let mut sb = [0u8; 32];
            sb[..8].copy_from_slice(&seed.to_le_bytes());
            let mut runner = TestRunner::new_with_rng(Config::default(), TestRng::from_seed(RngAlgorithm::ChaCha, &sb));
            let g = gen::GenCfg { thorough: false, feat: 0, steps_hint: 2000, include_known: args.iter().any(|a| a == "--include-known") };
            for u in prop.units {
                let s = (u.strategy)(&g);
                for _ in 0..n {
                    println!("{}", s.new_tree(&mut runner).unwrap().current().to_json());
                }
            }
        }
        _ => {
            eprintln!("unknown command");
            std::process::exit(2);
        }
    }
}
