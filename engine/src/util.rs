//! helpers shared by the scenario families: actors in thread or coroutine context, the
//! exactly-once ledger, observation logs, actor state table for the deadlock report
use crate::sched;
use std::any::Any;
use std::sync::atomic::{AtomicU64, AtomicUsize, Ordering};
use std::sync::{Arc, Mutex};

pub const TH: u8 = 0;
pub const CO: u8 = 1;

pub fn ctx_name(c: u8) -> &'static str {
    if c == CO {
        "co"
    } else {
        "th"
    }
}

/// how a joined actor ended
#[derive(Debug, Clone, PartialEq)]
pub enum End<T> {
    Ok(T),
    Cancel,
    Panic(String),
}

impl<T> End<T> {
    pub fn ok(self) -> Option<T> {
        match self {
            End::Ok(v) => Some(v),
            _ => None,
        }
    }
    pub fn is_ok(&self) -> bool {
        matches!(self, End::Ok(_))
    }
    pub fn kind(&self) -> String {
        match self {
            End::Ok(_) => "ok".into(),
            End::Cancel => "cancel".into(),
            End::Panic(s) => format!("panic({s})"),
        }
    }
}

pub fn classify<T>(r: Result<T, Box<dyn Any + Send>>) -> End<T> {
    match r {
        Ok(v) => End::Ok(v),
        Err(e) => {
            if let Some(generator::Error::Cancel) = e.downcast_ref::<generator::Error>() {
                End::Cancel
            } else if let Some(s) = e.downcast_ref::<String>() {
                End::Panic(s.clone())
            } else if let Some(s) = e.downcast_ref::<&'static str>() {
                End::Panic(s.to_string())
            } else if let Some(e) = e.downcast_ref::<generator::Error>() {
                End::Panic(format!("generator::{e:?}"))
            } else {
                End::Panic("<non-string payload>".into())
            }
        }
    }
}

/// an actor running as an OS thread (under the scheduler) or as a coroutine
pub enum H<T> {
    Co(may::coroutine::JoinHandle<T>),
    Th(sched::VJoin<T>),
}

pub fn spawn<T: Send + 'static>(ctx: u8, name: &str, f: impl FnOnce() -> T + Send + 'static) -> H<T> {
    if ctx == CO {
        H::Co(unsafe { may::coroutine::spawn(f) })
    } else {
        H::Th(sched::vspawn(name, f))
    }
}

impl<T> H<T> {
    pub fn join(self) -> End<T> {
        match self {
            H::Co(h) => classify(h.join()),
            H::Th(h) => classify(h.join()),
        }
    }
    pub fn coroutine(&self) -> Option<&may::coroutine::Coroutine> {
        match self {
            H::Co(h) => Some(h.coroutine()),
            H::Th(_) => None,
        }
    }
    pub fn cancel(&self) {
        if let H::Co(h) = self {
            unsafe { h.coroutine().cancel() }
        }
    }
}

/// sleep in whatever context the caller is (virtual thread sleep or coroutine sleep)
pub fn sleep_ns(ns: u64) {
    may::coroutine::sleep(std::time::Duration::from_nanos(ns));
}

/// wait for a condition set by another actor by polling with virtual sleeps (exponential
/// back-off). gives up after `give_up_ns` of virtual time and returns false: a waiting actor
/// that polled for ever would hide a hang from the deadlock detector (every expired sleep
/// looks like progress) and burn the step budget. after giving up the actor simply goes on /
/// ends, and whoever is really stuck is reported by the exact detector.
pub fn poll_until(mut cond: impl FnMut() -> bool, give_up_ns: u64) -> bool {
    let mut backoff = 300u64;
    let mut waited = 0u64;
    loop {
        if cond() {
            return true;
        }
        if waited >= give_up_ns {
            return false;
        }
        sleep_ns(backoff);
        waited += backoff;
        backoff = (backoff * 2).min(200_000_000);
    }
}

/// a cooperative pause that lets others run and time pass; cancellable in coroutines
pub fn pause() {
    may::coroutine::yield_now();
}

////////////////////////////////////////////////////////////////////////////////
// exactly-once ledger
////////////////////////////////////////////////////////////////////////////////

pub const MAGIC: u64 = 0x5eed_cafe_f00d_beef;

pub struct LedgerInner {
    pub drops: Vec<AtomicUsize>,
    pub taken: Vec<AtomicUsize>,
    pub bad_magic: AtomicUsize,
}

#[derive(Clone)]
pub struct Ledger(pub Arc<LedgerInner>);

/// a payload whose creation, delivery and destruction are all counted
pub struct Tok {
    magic: u64,
    pub id: usize,
    ledger: Ledger,
}

impl Ledger {
    pub fn new(n: usize) -> Ledger {
        Ledger(Arc::new(LedgerInner {
            drops: (0..n).map(|_| AtomicUsize::new(0)).collect(),
            taken: (0..n).map(|_| AtomicUsize::new(0)).collect(),
            bad_magic: AtomicUsize::new(0),
        }))
    }
    pub fn tok(&self, id: usize) -> Tok {
        assert!(id < self.0.drops.len());
        Tok { magic: MAGIC, id, ledger: self.clone() }
    }
    pub fn len(&self) -> usize {
        self.0.drops.len()
    }
    pub fn drops(&self, id: usize) -> usize {
        self.0.drops[id].load(Ordering::SeqCst)
    }
    pub fn taken(&self, id: usize) -> usize {
        self.0.taken[id].load(Ordering::SeqCst)
    }
    pub fn bad_magic(&self) -> usize {
        self.0.bad_magic.load(Ordering::SeqCst)
    }
}

impl Tok {
    /// the receiver obtained this value: check it is a real one and count the delivery
    pub fn take(&self) -> usize {
        if self.magic != MAGIC {
            // never touch `ledger` of a garbage value
            return usize::MAX;
        }
        self.ledger.0.taken[self.id].fetch_add(1, Ordering::SeqCst);
        self.id
    }
    pub fn valid(&self) -> bool {
        self.magic == MAGIC
    }
}

impl Drop for Tok {
    fn drop(&mut self) {
        if self.magic == MAGIC {
            self.ledger.0.drops[self.id].fetch_add(1, Ordering::SeqCst);
        }
    }
}

////////////////////////////////////////////////////////////////////////////////
// observation log
////////////////////////////////////////////////////////////////////////////////

/// one completed (or started) operation of an actor
#[derive(Clone, Debug)]
pub struct Obs {
    pub actor: usize,
    pub idx: usize,
    pub op: u8,
    /// family specific result code and value
    pub res: i64,
    pub val: i64,
    /// logical stamps and virtual times of call and return
    pub c: u64,
    pub r: u64,
    pub vc: u64,
    pub vr: u64,
    /// tick time accounted between call and return
    pub tick: u64,
}

#[derive(Clone)]
pub struct Log(pub Arc<Mutex<Vec<Obs>>>);

pub struct Call {
    actor: usize,
    idx: usize,
    op: u8,
    c: u64,
    vc: u64,
    tick0: u64,
}

impl Log {
    pub fn new() -> Log {
        Log(Arc::new(Mutex::new(Vec::new())))
    }
    pub fn call(&self, actor: usize, idx: usize, op: u8) -> Call {
        let (vc, tick0) = sched::now_tick();
        Call { actor, idx, op, c: sched::stamp(), vc, tick0 }
    }
    pub fn ret(&self, c: Call, res: i64, val: i64) {
        let r = sched::stamp();
        let (vr, tick1) = sched::now_tick();
        self.0.lock().unwrap_or_else(|e| e.into_inner()).push(Obs {
            actor: c.actor,
            idx: c.idx,
            op: c.op,
            res,
            val,
            c: c.c,
            r,
            vc: c.vc,
            vr,
            tick: tick1 - c.tick0,
        });
    }
    pub fn take(&self) -> Vec<Obs> {
        let mut v = std::mem::take(&mut *self.0.lock().unwrap_or_else(|e| e.into_inner()));
        v.sort_by_key(|o| o.c);
        v
    }
}

pub fn overlaps(a: &Obs, b: &Obs) -> bool {
    a.c < b.r && b.c < a.r
}

////////////////////////////////////////////////////////////////////////////////
// actor state table (what is everybody doing right now) for deadlock reports
////////////////////////////////////////////////////////////////////////////////

pub struct StatesInner {
    /// per actor: (op index << 16) | (op code << 8) | phase; phase 0 idle, 1 in call, 2 done
    pub st: Vec<AtomicU64>,
    pub desc: Vec<String>,
}

#[derive(Clone)]
pub struct States(pub Arc<StatesInner>);

/// the table of the running case (for helpers that are not handed one)
static CURRENT_STATES: std::sync::Mutex<Option<States>> = std::sync::Mutex::new(None);
/// scheduler key on which actors wait for state changes of other actors
const STATES_KEY: usize = 0x5354;

impl States {
    /// `desc[i]` is "role/ctx" of actor i; `opname` renders an op code
    pub fn install(desc: Vec<String>, opname: fn(u8) -> &'static str) -> States {
        let s = States(Arc::new(StatesInner { st: (0..desc.len()).map(|_| AtomicU64::new(0)).collect(), desc }));
        let s2 = s.clone();
        *sched::DUMP.lock().unwrap() = Some(Box::new(move || {
            let mut fp = vec![];
            let mut txt = vec![];
            for (i, a) in s2.0.st.iter().enumerate() {
                let v = a.load(Ordering::SeqCst);
                let (idx, op, ph) = (v >> 16, ((v >> 8) & 0xff) as u8, v & 0xff);
                match ph {
                    1 => {
                        fp.push(format!("{}:{}", s2.0.desc[i], opname(op)));
                        txt.push(format!("#{i} {} stuck in op[{idx}]={}", s2.0.desc[i], opname(op)));
                    }
                    2 => txt.push(format!("#{i} {} done", s2.0.desc[i])),
                    _ => txt.push(format!("#{i} {} between ops at {idx}", s2.0.desc[i])),
                }
            }
            fp.sort();
            fp.dedup();
            (fp.join(","), txt.join("; "))
        }));
        *CURRENT_STATES.lock().unwrap() = Some(s.clone());
        s
    }
    pub fn current() -> Option<States> {
        CURRENT_STATES.lock().unwrap().clone()
    }
    /// has the actor entered (or already left) its op `idx`, or ended?
    pub fn reached(&self, actor: usize, idx: usize) -> bool {
        let v = self.0.st[actor].load(Ordering::SeqCst);
        v & 0xff == 2 || (v >> 16) as usize > idx || ((v >> 16) as usize == idx && v & 0xff == 1)
    }
    /// block the calling OS thread (virtually) until `actor` has entered op `idx`; gives up
    /// after 5 virtual seconds. in coroutine context this polls with sleeps instead
    pub fn wait_reached(&self, actor: usize, idx: usize) {
        if actor >= self.0.st.len() {
            return;
        }
        if may::coroutine::is_coroutine() {
            poll_until(|| self.reached(actor, idx), 5_000_000_000);
            return;
        }
        let give_up = sched::now_ns() + 5_000_000_000;
        while !self.reached(actor, idx) && sched::now_ns() < give_up {
            sched::block(STATES_KEY, Some(give_up), false);
        }
    }
    pub fn enter(&self, actor: usize, idx: usize, op: u8) {
        // harness boundary: what the actor did before is visible to everybody (the harness'
        // own bookkeeping is not subject to store buffering)
        crate::sched::flush_own();
        self.0.st[actor].store(((idx as u64) << 16) | ((op as u64) << 8) | 1, Ordering::SeqCst);
        sched::notify(STATES_KEY);
    }
    pub fn leave(&self, actor: usize, idx: usize) {
        crate::sched::flush_own();
        self.0.st[actor].store(((idx as u64 + 1) << 16), Ordering::SeqCst);
    }
    pub fn done(&self, actor: usize) {
        self.0.st[actor].store(2, Ordering::SeqCst);
        sched::notify(STATES_KEY);
    }
}

/// marks the actor done also when it unwinds (cancel, panic)
pub struct DoneGuard<'a>(pub &'a States, pub usize);
impl Drop for DoneGuard<'_> {
    fn drop(&mut self) {
        self.0.done(self.1);
    }
}

/// small deterministic generator for choices that are derived from case scalars
pub struct Lcg(pub u64);
impl Lcg {
    pub fn next(&mut self) -> usize {
        self.0 = self.0.wrapping_mul(6364136223846793005).wrapping_add(1442695040888963407);
        (self.0 >> 33) as usize
    }
}
