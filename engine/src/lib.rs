//! engine library: shared by the `mv` binary and the in-process fuzz targets (E2)
/// LIFO size-class allocator for block sized objects: a freed queue block is handed out again
/// at the same address by the very next allocation of that size (ABA by construction, needed
/// to reach the ABA windows of the work-stealing queue; glibc's per-thread caches hide them)
pub mod lifo {
    use std::alloc::{GlobalAlloc, Layout, System};
    use std::sync::atomic::{AtomicBool, Ordering};
    use std::sync::Mutex;
    pub static ON: AtomicBool = AtomicBool::new(false);
    static FREE: Mutex<Vec<(usize, usize, usize)>> = Mutex::new(Vec::new());
    pub struct Lifo;
    fn mine(l: &Layout) -> bool {
        ((l.size() >= 200 && l.size() <= 4096 && l.align() >= 32) || (l.size() >= 1024 && l.size() <= 8192)) && ON.load(Ordering::Relaxed)
    }
    unsafe impl GlobalAlloc for Lifo {
        unsafe fn alloc(&self, l: Layout) -> *mut u8 {
            if mine(&l) {
                if let Ok(mut f) = FREE.try_lock() {
                    if let Some(pos) = f.iter().rposition(|e| e.0 == l.size() && e.1 == l.align()) {
                        let e = f.remove(pos);
                        return e.2 as *mut u8;
                    }
                }
            }
            System.alloc(l)
        }
        unsafe fn dealloc(&self, p: *mut u8, l: Layout) {
            // buffered stores (weak cases) are written back before their target can go away
            crate::sched::flush_before_free(p as usize, l.size());
            if mine(&l) {
                if let Ok(mut f) = FREE.try_lock() {
                    if f.capacity() > f.len() {
                        f.push((l.size(), l.align(), p as usize));
                        return;
                    }
                }
            }
            System.dealloc(p, l)
        }
    }
    pub fn enable() {
        FREE.lock().unwrap().reserve(1024);
        ON.store(true, Ordering::Relaxed);
    }
}

pub mod case;
pub mod child;
pub mod driver;
pub mod fam;
pub mod gen;
pub mod sched;
pub mod util;
