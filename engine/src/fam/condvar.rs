//! `condvar` family (C11): ticket protocol on Mutex+Condvar, Barrier, WaitGroup
//!
//! cfg[0] = 0 ticket protocol, 1 barrier (cfg[1] = generations), 2 wait group
use crate::case::{Actor, Case, Op, Outcome};
use crate::fam::mutex::{cancel_targets, canceller_strategy, spawn_cancellers};
use crate::gen::{self, GenCfg};
use crate::sched;
use crate::util::*;
use may::sync::{Barrier, Condvar, Mutex, WaitGroup};
use proptest::prelude::*;
use std::sync::atomic::{AtomicUsize, Ordering};
use std::sync::Arc;
use std::time::Duration;

// ticket protocol ops
pub const WAIT: u8 = 0;
pub const WAIT_TO: u8 = 1; // arg ns; gives up when it times out
pub const WAIT_WHILE: u8 = 2;
pub const WAIT_QUIT: u8 = 7; // arg ns; waits once with a time-out and never takes a ticket
pub const GRANT_ONE: u8 = 3; // avail += 1; notify_one (op.2 = hold ns > 0: notify with the mutex held, keep it that long)
pub const GRANT_ALL: u8 = 4; // avail += arg; notify_all
pub const YIELD: u8 = 5;
pub const SLEEP: u8 = 6; // arg ns
// barrier / waitgroup ops
pub const B_WAIT: u8 = 10;
pub const WG_DROP: u8 = 11;
pub const WG_WAIT: u8 = 12;
pub const WG_CLONE_DROP: u8 = 13;

const SERVED: i64 = 0;
const GAVE_UP: i64 = 1;
const LEADER: i64 = 2;

pub fn opname(op: u8) -> &'static str {
    match op {
        WAIT => "cv.wait",
        WAIT_TO => "cv.wait_timeout",
        WAIT_WHILE => "cv.wait_while",
        WAIT_QUIT => "cv.wait_timeout(quitter)",
        GRANT_ONE => "grant+notify_one",
        GRANT_ALL => "grant+notify_all",
        YIELD => "yield",
        SLEEP => "sleep",
        B_WAIT => "barrier.wait",
        WG_DROP => "wg.drop",
        WG_WAIT => "wg.wait",
        WG_CLONE_DROP => "wg.clone+drop",
        20 => "cancel",
        _ => "?",
    }
}

struct Held<'a>(&'a AtomicUsize, bool, &'a AtomicUsize);
impl Held<'_> {
    fn acquire(&mut self) {
        if self.0.fetch_add(1, Ordering::SeqCst) != 0 {
            self.2.fetch_add(1, Ordering::SeqCst);
        }
        self.1 = true;
    }
    fn release(&mut self) {
        self.0.fetch_sub(1, Ordering::SeqCst);
        self.1 = false;
    }
}
impl Drop for Held<'_> {
    fn drop(&mut self) {
        if self.1 {
            self.0.fetch_sub(1, Ordering::SeqCst);
        }
    }
}

pub fn run(case: &Case) -> Outcome {
    match case.cfg(0) {
        0 => run_ticket(case),
        1 => run_barrier(case),
        _ => run_wg(case),
    }
}

fn join_all(case: &Case, handles: Vec<(usize, H<()>)>, cos: &[Option<may::coroutine::Coroutine>], out: &mut Outcome) -> usize {
    let cancellers = spawn_cancellers(case, cos);
    let targets = cancel_targets(case);
    let mut cancelled = 0;
    for (ai, h) in handles {
        match h.join() {
            End::Ok(()) => {}
            End::Cancel => {
                cancelled += 1;
                if !targets.contains(&ai) {
                    out.fail("cancel-observed-by-uncancelled-actor", format!("actor {ai}"));
                }
            }
            End::Panic(s) => out.fail("actor-panicked", format!("actor {ai}: {s}")),
        }
    }
    for h in cancellers {
        let _ = h.join();
    }
    crate::child::settle();
    cancelled
}

/// a poisoned mutex is still a mutex: take the guard out of the error (cfg[1] == 1: a
/// poisoner panics while holding the mutex of the ticket protocol)
fn ok<T>(r: std::sync::LockResult<T>) -> T {
    r.unwrap_or_else(|e| e.into_inner())
}

fn run_ticket(case: &Case) -> Outcome {
    let mut out = Outcome::new();
    let pair = Arc::new((Mutex::new(0usize), Condvar::new()));
    let occ = Arc::new(AtomicUsize::new(0));
    let bad = Arc::new(AtomicUsize::new(0));
    let log = Log::new();
    let desc: Vec<String> = case.actors.iter().map(|a| format!("cv.{}/{}", if a.role == 9 { "canceller" } else { "user" }, ctx_name(a.ctx))).collect();
    let states = States::install(desc, opname);
    let mut handles = vec![];
    let mut cos = vec![];
    for (ai, a) in case.actors.iter().enumerate() {
        if a.role == 9 {
            cos.push(None);
            continue;
        }
        let (pair, occ, bad, log, states) = (pair.clone(), occ.clone(), bad.clone(), log.clone(), states.clone());
        let ops = a.ops.clone();
        let h = spawn(a.ctx, "user", move || {
            let _dg = DoneGuard(&states, ai);
            let (m, cv) = &*pair;
            for (i, op) in ops.iter().enumerate() {
                states.enter(ai, i, op.0);
                match op.0 {
                    WAIT | WAIT_TO | WAIT_WHILE => {
                        let c = log.call(ai, i, op.0);
                        let mut g = ok(m.lock());
                        let mut held = Held(&occ, false, &bad);
                        held.acquire();
                        let mut res = SERVED;
                        if op.0 == WAIT_WHILE {
                            // (on a poisoned mutex wait_while comes back with the error at
                            // once, condition true or not - as std's does: wait again)
                            loop {
                                held.release();
                                g = ok(cv.wait_while(g, |a| *a == 0));
                                held.acquire();
                                if *g > 0 || !pair.0.is_poisoned() {
                                    break;
                                }
                            }
                        } else {
                            loop {
                                if *g > 0 {
                                    break;
                                }
                                held.release();
                                if op.0 == WAIT {
                                    g = ok(cv.wait(g));
                                    held.acquire();
                                } else {
                                    let (g2, r) = ok(cv.wait_timeout(g, Duration::from_nanos(op.1 as u64)));
                                    g = g2;
                                    held.acquire();
                                    if r.timed_out() {
                                        // gives up without taking a ticket, even if one is there
                                        res = GAVE_UP;
                                        break;
                                    }
                                }
                            }
                        }
                        if res == SERVED {
                            if *g == 0 {
                                bad.fetch_add(1000, Ordering::SeqCst);
                            } else {
                                *g -= 1;
                            }
                        }
                        drop(held);
                        drop(g);
                        log.ret(c, res, 0);
                    }
                    WAIT_QUIT => {
                        // a waiter that leaves after its time-out without ever taking a ticket; if
                        // it was woken by a notification it does not need, it passes it on
                        let c = log.call(ai, i, op.0);
                        let g = ok(m.lock());
                        let mut held = Held(&occ, false, &bad);
                        held.acquire();
                        held.release();
                        let (g, r) = ok(cv.wait_timeout(g, Duration::from_nanos(op.1 as u64)));
                        held.acquire();
                        let timed_out = r.timed_out();
                        drop(held);
                        drop(g);
                        if !timed_out {
                            cv.notify_one();
                        }
                        log.ret(c, if timed_out { GAVE_UP } else { SERVED }, 1);
                    }
                    GRANT_ONE | GRANT_ALL => {
                        let c = log.call(ai, i, op.0);
                        if op.2 == 0 {
                            {
                                let mut g = ok(m.lock());
                                let mut held = Held(&occ, false, &bad);
                                held.acquire();
                                *g += if op.0 == GRANT_ONE { 1 } else { op.1 as usize };
                                drop(held);
                            }
                            if op.0 == GRANT_ONE {
                                cv.notify_one();
                            } else {
                                cv.notify_all();
                            }
                        } else {
                            // notify with the mutex held and keep it for a while: the woken
                            // waiters block in the re-lock inside Condvar::wait
                            let mut g = ok(m.lock());
                            let mut held = Held(&occ, false, &bad);
                            held.acquire();
                            // (bit 31: keep the mutex first and notify at the end - waiters whose
                            // time-out expires meanwhile sit in the re-lock, still queued)
                            let before = op.2 & (1 << 31) != 0;
                            if before {
                                sleep_ns((op.2 & !(1 << 31)) as u64);
                            }
                            *g += if op.0 == GRANT_ONE { 1 } else { op.1 as usize };
                            if op.0 == GRANT_ONE {
                                cv.notify_one();
                            } else {
                                cv.notify_all();
                            }
                            if !before {
                                sleep_ns(op.2 as u64);
                            }
                            drop(held);
                            drop(g);
                        }
                        log.ret(c, 0, 0);
                    }
                    YIELD => pause(),
                    SLEEP => sleep_ns(op.1 as u64),
                    _ => {}
                }
                states.leave(ai, i);
            }
        });
        cos.push(h.coroutine().cloned());
        handles.push((ai, h));
    }
    // cfg[1] == 1: a poisoner locks the mutex cfg[2] ns after the start and panics with the
    // guard alive, while the waiters sleep on the condvar
    let poison = case.cfg(1) == 1;
    let poisoner = if poison {
        let (pair, occ, bad) = (pair.clone(), occ.clone(), bad.clone());
        let delay = case.cfg(2).max(0) as u64;
        Some(spawn(if case.cfg(3) == 1 { CO } else { TH }, "poisoner", move || {
            sleep_ns(delay);
            let g = ok(pair.0.lock());
            let mut held = Held(&occ, false, &bad);
            held.acquire();
            let _ = &g;
            panic!("mv-expected-panic-poisoner");
        }))
    } else {
        None
    };
    let cancelled = join_all(case, handles, &cos, &mut out);
    if let Some(p) = poisoner {
        match p.join() {
            End::Panic(m) if m == "mv-expected-panic-poisoner" => {}
            e => out.fail("poisoner-ended-abnormally", e.kind()),
        }
    }
    let b = bad.load(Ordering::SeqCst);
    if b >= 1000 {
        out.fail("wait_while-returned-with-condition-true", String::new());
    } else if b > 0 {
        out.fail("mutex-not-held-exclusively-after-wait", String::new());
    }
    match pair.0.try_lock() {
        Ok(_) => {}
        Err(std::sync::TryLockError::WouldBlock) => out.fail("mutex-not-free-at-the-end", format!("cancelled {cancelled}")),
        Err(std::sync::TryLockError::Poisoned(_)) if poison => {}
        Err(std::sync::TryLockError::Poisoned(_)) => out.fail("mutex-poisoned", format!("cancelled {cancelled}")),
    }
    let obs = log.take();
    for o in obs.iter().filter(|o| (o.op == WAIT_TO || o.op == WAIT_QUIT) && o.res == GAVE_UP) {
        let d = case.actors[o.actor].ops[o.idx].1 as u64;
        if o.vr - o.vc < d {
            out.fail("timed_out-before-the-duration", format!("elapsed {} d {d}", o.vr - o.vc));
        }
    }
    let waits: Vec<&Obs> = obs.iter().filter(|o| matches!(o.op, WAIT | WAIT_TO | WAIT_WHILE | WAIT_QUIT)).collect();
    let grants: Vec<&Obs> = obs.iter().filter(|o| matches!(o.op, GRANT_ONE | GRANT_ALL)).collect();
    let overlap = grants.iter().any(|g| waits.iter().any(|w| overlaps(g, w)));
    let timed_race = grants.iter().any(|g| waits.iter().any(|w| (w.op == WAIT_TO || w.op == WAIT_QUIT) && w.res == GAVE_UP && overlaps(g, w)));
    out.flag_if(obs.iter().any(|o| o.op == WAIT_QUIT), "quitter");
    let pre = sched::preempts() > 0;
    out.flag("ticket");
    out.flag_if(poison, "mutex_poisoned_while_waiters_sleep");
    out.flag_if(overlap, "notify_overlaps_wait");
    out.flag_if(timed_race, "notify_overlaps_wait_that_timed_out");
    out.flag_if(cancelled > 0, "cancel_delivered");
    out.flag_if(pre, "preempted");
    out.nontrivial = pre && overlap;
    out
}

fn run_barrier(case: &Case) -> Outcome {
    let mut out = Outcome::new();
    let parties = case.actors.len();
    let gens = case.cfg(1).max(1) as usize;
    let b = Arc::new(Barrier::new(parties));
    let arrived: Arc<Vec<AtomicUsize>> = Arc::new((0..gens).map(|_| AtomicUsize::new(0)).collect());
    let leaders: Arc<Vec<AtomicUsize>> = Arc::new((0..gens).map(|_| AtomicUsize::new(0)).collect());
    let early = Arc::new(AtomicUsize::new(0));
    let desc: Vec<String> = case.actors.iter().map(|a| format!("barrier.party/{}", ctx_name(a.ctx))).collect();
    let states = States::install(desc, opname);
    let mut handles = vec![];
    for (ai, a) in case.actors.iter().enumerate() {
        let (b, arrived, leaders, early, states) = (b.clone(), arrived.clone(), leaders.clone(), early.clone(), states.clone());
        let ops = a.ops.clone();
        handles.push((
            ai,
            spawn(a.ctx, "party", move || {
                let _dg = DoneGuard(&states, ai);
                let mut g = 0;
                for (i, op) in ops.iter().enumerate() {
                    states.enter(ai, i, op.0);
                    match op.0 {
                        B_WAIT => {
                            arrived[g].fetch_add(1, Ordering::SeqCst);
                            let r = b.wait();
                            if arrived[g].load(Ordering::SeqCst) != parties {
                                early.fetch_add(1, Ordering::SeqCst);
                            }
                            if r.is_leader() {
                                leaders[g].fetch_add(1, Ordering::SeqCst);
                            }
                            g += 1;
                        }
                        YIELD => pause(),
                        SLEEP => sleep_ns(op.1 as u64),
                        _ => {}
                    }
                    states.leave(ai, i);
                }
            }),
        ));
    }
    join_all(case, handles, &[], &mut out);
    if early.load(Ordering::SeqCst) > 0 {
        out.fail("barrier-released-before-all-arrived", String::new());
    }
    for g in 0..gens {
        let l = leaders[g].load(Ordering::SeqCst);
        if l != 1 {
            out.fail("barrier-leader-count", format!("generation {g} has {l} leaders"));
        }
    }
    let pre = sched::preempts() > 0;
    out.flag("barrier");
    out.flag_if(pre, "preempted");
    out.flag_if(gens > 1, "reused");
    out.nontrivial = pre && parties >= 2;
    let _ = LEADER;
    out
}

fn run_wg(case: &Case) -> Outcome {
    let mut out = Outcome::new();
    let log = Log::new();
    let desc: Vec<String> = case.actors.iter().map(|a| format!("wg.{}/{}", if a.role == 1 { "waiter" } else { "holder" }, ctx_name(a.ctx))).collect();
    let states = States::install(desc, opname);
    let wg = WaitGroup::new();
    let mut handles = vec![];
    for (ai, a) in case.actors.iter().enumerate() {
        let my = wg.clone();
        let (log, states) = (log.clone(), states.clone());
        let ops = a.ops.clone();
        handles.push((
            ai,
            spawn(a.ctx, "wg", move || {
                let _dg = DoneGuard(&states, ai);
                let mut my = Some(my);
                for (i, op) in ops.iter().enumerate() {
                    states.enter(ai, i, op.0);
                    match op.0 {
                        WG_DROP => {
                            if let Some(w) = my.take() {
                                let c = log.call(ai, i, WG_DROP);
                                drop(w);
                                log.ret(c, 0, 0);
                            }
                        }
                        WG_CLONE_DROP => {
                            if let Some(w) = my.as_ref() {
                                let c2 = w.clone();
                                pause();
                                drop(c2);
                            }
                        }
                        WG_WAIT => {
                            if let Some(w) = my.take() {
                                let c = log.call(ai, i, WG_WAIT);
                                w.wait();
                                log.ret(c, 0, 0);
                            }
                        }
                        YIELD => pause(),
                        SLEEP => sleep_ns(op.1 as u64),
                        _ => {}
                    }
                    states.leave(ai, i);
                }
                if let Some(w) = my.take() {
                    let c = log.call(ai, ops.len(), WG_DROP);
                    drop(w);
                    log.ret(c, 0, 0);
                }
            }),
        ));
    }
    // the original reference
    let c = log.call(usize::MAX, 0, WG_DROP);
    drop(wg);
    log.ret(c, 0, 0);
    join_all(case, handles, &[], &mut out);
    let obs = log.take();
    // wait() may only return once every other reference has at least begun to be dropped
    // (a waiter's own reference is dropped inside wait)
    let drops: Vec<&Obs> = obs.iter().filter(|o| o.op == WG_DROP).collect();
    let waits: Vec<&Obs> = obs.iter().filter(|o| o.op == WG_WAIT).collect();
    for w in &waits {
        for d in &drops {
            if d.c > w.r {
                out.fail("waitgroup-wait-returned-before-all-dropped", format!("waiter {} returned at {} but actor {} dropped at {}", w.actor, w.r, d.actor as i64, d.c));
            }
        }
        for w2 in &waits {
            if w2.c > w.r {
                out.fail("waitgroup-wait-returned-before-other-waiter-arrived", format!("waiter {} vs {}", w.actor, w2.actor));
            }
        }
    }
    let overlap = waits.iter().any(|w| drops.iter().any(|d| overlaps(w, d)));
    let pre = sched::preempts() > 0;
    out.flag("waitgroup");
    out.flag_if(overlap, "drop_overlaps_wait");
    out.flag_if(pre, "preempted");
    out.nontrivial = pre && overlap;
    out
}

pub fn strategy(g: &GenCfg) -> BoxedStrategy<Case> {
    let g2 = g.clone();
    let d = || prop_oneof![Just(1_000_000u32), Just(2_000_000u32), 1u32..3_000_000];
    // ticket protocol
    let wop = prop_oneof![3 => Just(Op(WAIT, 0, 0)), 3 => d().prop_map(|d| Op(WAIT_TO, d, 0)), 1 => Just(Op(WAIT_WHILE, 0, 0)), 2 => d().prop_map(|d| Op(WAIT_QUIT, d, 0)), 1 => Just(Op(YIELD, 0, 0)), 1 => d().prop_map(|d| Op(SLEEP, d, 0))];
    let waiter = (0u8..2, proptest::collection::vec(wop, 1..4)).prop_map(|(ctx, ops)| Actor { ctx, role: 0, ops });
    let g3 = g2.clone();
    let ticket = (proptest::collection::vec(waiter, 1..=4), 0u8..2, any::<bool>(), proptest::collection::vec(prop_oneof![2 => Just(0u32), 1 => d()], 8), proptest::collection::vec(prop_oneof![2 => Just(0u32), 1 => 1u32..300_000], 4))
        .prop_flat_map(move |(waiters, nctx, use_all, delays, holds)| {
            let n = waiters.len();
            (Just((waiters, nctx, use_all, delays, holds)), canceller_strategy(n, 3_000_000), gen::config(&g3), gen::schedule(&g3, true))
        })
        .prop_map(|((mut actors, nctx, use_all, delays, holds), canc, (workers, pool, feat), sched)| {
            // grants = number of waiting ops: sufficient whatever gives up or is cancelled;
            // every grant is followed by notify_one, the last one (optionally) by notify_all
            let k: usize = actors.iter().map(|a: &Actor| a.ops.iter().filter(|o| matches!(o.0, WAIT | WAIT_TO | WAIT_WHILE)).count()).sum();
            let mut ops = vec![];
            for i in 0..k {
                let dl = delays[i % delays.len()];
                if dl > 0 {
                    ops.push(Op(SLEEP, dl, 0));
                }
                let mut hold = holds[i % holds.len()];
                // half of the holding grants keep the mutex before they notify, for up to 3 ms
                // (the waiters' time-outs are 1-3 ms)
                if hold > 0 && delays[(i + 3) % delays.len()] % 2 == 0 {
                    hold = (hold * 10) | (1 << 31);
                }
                if use_all && i + 1 == k {
                    ops.push(Op(GRANT_ALL, 1, hold));
                } else {
                    ops.push(Op(GRANT_ONE, 0, hold));
                }
            }
            actors.push(Actor { ctx: nctx, role: 0, ops });
            if let Some(c) = canc {
                actors.push(c);
            }
            // one case in five: the mutex gets poisoned while the waiters sleep
            let poison = (holds[0] % 5 == 1) as i64;
            Case { fam: "condvar".into(), workers, pool, feat, cfg: vec![0, poison, (delays[1] % 2_000_000) as i64, (holds[1] % 2) as i64], actors, sched, weak: 0 }
        });
    // barrier
    let g4 = g2.clone();
    let barrier = (1usize..=5, 1i64..=4, proptest::collection::vec((0u8..2, proptest::collection::vec(prop_oneof![3 => Just(None), 1 => Just(Some(Op(YIELD, 0, 0))), 1 => (1u32..2_000_000).prop_map(|d| Some(Op(SLEEP, d, 0)))], 4)), 5))
        .prop_flat_map(move |(n, gens, extra)| (Just((n, gens, extra)), gen::config(&g4), gen::schedule(&g4, false)))
        .prop_map(|((n, gens, extra), (workers, pool, feat), sched)| {
            let mut actors = vec![];
            for p in 0..n {
                let (ctx, fill) = &extra[p];
                let mut ops = vec![];
                for g in 0..gens as usize {
                    if let Some(Some(o)) = fill.get(g) {
                        ops.push(o.clone());
                    }
                    ops.push(Op(B_WAIT, 0, 0));
                }
                actors.push(Actor { ctx: *ctx, role: 0, ops });
            }
            Case { fam: "condvar".into(), workers, pool, feat, cfg: vec![1, gens], actors, sched, weak: 0 }
        });
    // wait group
    let g5 = g2.clone();
    let wgop = prop_oneof![2 => Just(Op(WG_DROP, 0, 0)), 2 => Just(Op(WG_CLONE_DROP, 0, 0)), 1 => Just(Op(YIELD, 0, 0)), 1 => (1u32..2_000_000).prop_map(|d| Op(SLEEP, d, 0))];
    let holder = (0u8..2, proptest::collection::vec(wgop.clone(), 0..4)).prop_map(|(ctx, ops)| Actor { ctx, role: 0, ops });
    let waiter2 = (0u8..2, proptest::collection::vec(prop_oneof![1 => Just(Op(YIELD, 0, 0)), 1 => Just(Op(WG_CLONE_DROP, 0, 0))], 0..2)).prop_map(|(ctx, mut ops)| {
        ops.push(Op(WG_WAIT, 0, 0));
        Actor { ctx, role: 1, ops }
    });
    let wg = (proptest::collection::vec(holder, 0..=4), proptest::collection::vec(waiter2, 1..=2), gen::config(&g5), gen::schedule(&g5, false)).prop_map(|(mut actors, ws, (workers, pool, feat), sched)| {
        actors.extend(ws);
        Case { fam: "condvar".into(), workers, pool, feat, cfg: vec![2], actors, sched, weak: 0 }
    });
    prop_oneof![5 => ticket, 2 => barrier, 2 => wg].boxed()
}
