//! `timed` family (C08): sleep and every timed wait, for every duration, with an event that
//! is issued before / at / after the deadline or never, other timers pending, stall faults
//!
//! each actor performs ONE timed call: ops[0] = Op(kind, d_lo, d_hi) (duration in ns),
//! ops[1] = Op(EV, e_lo, e_hi): the event is issued by an event actor `e` ns after the
//! waiter's call (u64::MAX = never); ops[1].0 = context of the event actor | 0x10 = "before":
//! the event is issued before the waiter starts
use crate::case::{Actor, Case, Op, Outcome};
use crate::gen::{self, GenCfg};
use crate::sched;
use crate::util::*;
use may::sync::{mpmc, mpsc, Blocker, Condvar, Mutex, Semphore, SyncFlag};
use proptest::prelude::*;
use std::sync::atomic::{AtomicU64, Ordering};
use std::sync::Arc;
use std::time::Duration;

pub const K_SLEEP: u8 = 0;
pub const K_MPSC: u8 = 1;
pub const K_MPMC: u8 = 2;
pub const K_SEM: u8 = 3;
pub const K_FLAG: u8 = 4;
pub const K_CONDVAR: u8 = 5;
pub const K_CQUEUE: u8 = 6;
pub const K_BLOCKER: u8 = 7;
pub const K_PARKTO: u8 = 8;
/// ops[2] (optional): the waiter starts after this many ns
pub const START: u8 = 99;

const R_EVENT: i64 = 0;
const R_TIMEOUT: i64 = 1;
const R_NONE: i64 = 2; // calls without a result (sleep, coroutine::park_timeout)
const R_OTHER: i64 = 3;

pub fn opname(op: u8) -> &'static str {
    match op {
        K_SLEEP => "sleep",
        K_MPSC => "mpsc.recv_timeout",
        K_MPMC => "mpmc.recv_timeout",
        K_SEM => "Semphore.wait_timeout",
        K_FLAG => "SyncFlag.wait_timeout",
        K_CONDVAR => "Condvar.wait_timeout",
        K_CQUEUE => "cqueue.poll",
        K_BLOCKER => "Blocker.park",
        K_PARKTO => "coroutine.park_timeout",
        100 => "issue-event",
        _ => "?",
    }
}

fn u64_of(op: &Op) -> u64 {
    (op.1 as u64) | ((op.2 as u64) << 32)
}

fn dur_class(d: u64) -> &'static str {
    if d == 0 {
        "d=0"
    } else if d < 1_000_000 {
        "d<1ms"
    } else if d % 1_000_000 != 0 {
        "d=frac-ms"
    } else {
        "d=whole-ms"
    }
}

/// what the event actor needs to produce the event for one waiter
#[derive(Clone)]
enum Target {
    None,
    Mpsc(Arc<std::sync::Mutex<Option<mpsc::Sender<usize>>>>),
    Mpmc(Arc<std::sync::Mutex<Option<mpmc::Sender<usize>>>>),
    Sem(Arc<Semphore>),
    Flag(Arc<SyncFlag>),
    Condvar(Arc<(Mutex<usize>, Condvar)>),
    Blocker(Arc<std::sync::Mutex<Option<Arc<Blocker>>>>),
    Co(Arc<std::sync::Mutex<Option<may::coroutine::Coroutine>>>),
}

fn fire(t: &Target) {
    match t {
        Target::None => {}
        Target::Mpsc(tx) => {
            if let Some(tx) = tx.lock().unwrap().as_ref() {
                let _ = tx.send(1);
            }
        }
        Target::Mpmc(tx) => {
            if let Some(tx) = tx.lock().unwrap().as_ref() {
                let _ = tx.send(1);
            }
        }
        Target::Sem(s) => s.post(),
        Target::Flag(f) => f.fire(),
        Target::Condvar(p) => {
            *p.0.lock().unwrap() += 1;
            p.1.notify_one();
        }
        Target::Blocker(b) => {
            let b = b.lock().unwrap().clone();
            if let Some(b) = b {
                b.unpark();
            }
        }
        Target::Co(c) => {
            let c = c.lock().unwrap().clone();
            if let Some(c) = c {
                c.unpark();
            }
        }
    }
}

pub fn run(case: &Case) -> Outcome {
    let mut out = Outcome::new();
    let n = case.actors.len();
    let log = Log::new();
    let desc: Vec<String> = case.actors.iter().map(|a| format!("waiter/{}", ctx_name(if a.ops[0].0 == K_PARKTO { CO } else { a.ctx }))).chain((0..n).map(|_| "eventer".to_string())).collect();
    let states = States::install(desc, opname);
    // virtual time of each waiter's call, published for its event actor
    let call_at: Arc<Vec<AtomicU64>> = Arc::new((0..n).map(|_| AtomicU64::new(0)).collect());
    // (issue call stamp, issue return stamp, vtime at issue)
    let fired: Arc<Vec<[AtomicU64; 3]>> = Arc::new((0..n).map(|_| [AtomicU64::new(0), AtomicU64::new(0), AtomicU64::new(0)]).collect());
    let mut waiters = vec![];
    let mut eventers = vec![];
    let mut pre_events = vec![];
    // the event sources stay alive until every waiter has returned (a dropped Sender would
    // be a disconnect event of its own)
    let mut keep = vec![];
    for (ai, a) in case.actors.iter().enumerate() {
        let kind = a.ops[0].0;
        let d = u64_of(&a.ops[0]);
        let e = u64_of(&a.ops[1]);
        let ev_ctx = a.ops[1].0 & 1;
        let before = a.ops[1].0 & 0x10 != 0;
        let dur = Duration::from_nanos(d);
        // build the primitive
        let target;
        let body: Box<dyn FnOnce() -> i64 + Send> = match kind {
            K_SLEEP => {
                target = Target::None;
                Box::new(move || {
                    may::coroutine::sleep(dur);
                    R_NONE
                })
            }
            K_MPSC => {
                let (tx, rx) = mpsc::channel::<usize>();
                target = Target::Mpsc(Arc::new(std::sync::Mutex::new(Some(tx))));
                Box::new(move || match rx.recv_timeout(dur) {
                    Ok(_) => R_EVENT,
                    Err(std::sync::mpsc::RecvTimeoutError::Timeout) => R_TIMEOUT,
                    Err(_) => R_OTHER,
                })
            }
            K_MPMC => {
                let (tx, rx) = mpmc::channel::<usize>();
                target = Target::Mpmc(Arc::new(std::sync::Mutex::new(Some(tx))));
                Box::new(move || match rx.recv_timeout(dur) {
                    Ok(_) => R_EVENT,
                    Err(std::sync::mpsc::RecvTimeoutError::Timeout) => R_TIMEOUT,
                    Err(_) => R_OTHER,
                })
            }
            K_SEM => {
                let s = Arc::new(Semphore::new(0));
                target = Target::Sem(s.clone());
                Box::new(move || if s.wait_timeout(dur) { R_EVENT } else { R_TIMEOUT })
            }
            K_FLAG => {
                let f = Arc::new(SyncFlag::new());
                target = Target::Flag(f.clone());
                Box::new(move || if f.wait_timeout(dur) { R_EVENT } else { R_TIMEOUT })
            }
            K_CONDVAR => {
                let p = Arc::new((Mutex::new(0usize), Condvar::new()));
                target = Target::Condvar(p.clone());
                Box::new(move || {
                    let g = p.0.lock().unwrap();
                    if *g > 0 {
                        // the grant was there before we waited
                        return R_EVENT;
                    }
                    let (g, r) = p.1.wait_timeout(g, dur).unwrap();
                    let granted = *g > 0;
                    drop(g);
                    if r.timed_out() {
                        R_TIMEOUT
                    } else if granted {
                        R_EVENT
                    } else {
                        R_OTHER
                    }
                })
            }
            K_CQUEUE => {
                let (tx, rx) = mpsc::channel::<usize>();
                target = Target::Mpsc(Arc::new(std::sync::Mutex::new(Some(tx))));
                Box::new(move || {
                    may::cqueue::scope(|cq| {
                        cq.add(0, move |es| {
                            if rx.recv().is_ok() {
                                es.send(0);
                            }
                        });
                        match cq.poll(Some(dur)) {
                            Ok(_) => R_EVENT,
                            Err(may::cqueue::PollError::Timeout) => R_TIMEOUT,
                            Err(may::cqueue::PollError::Finished) => R_OTHER,
                        }
                    })
                })
            }
            K_BLOCKER => {
                let slot = Arc::new(std::sync::Mutex::new(None));
                target = Target::Blocker(slot.clone());
                Box::new(move || {
                    let b = Blocker::current();
                    *slot.lock().unwrap() = Some(b.clone());
                    match b.park(Some(dur)) {
                        Ok(()) => R_EVENT,
                        Err(may::coroutine::ParkError::Timeout) => R_TIMEOUT,
                        Err(_) => R_OTHER,
                    }
                })
            }
            _ => {
                let slot = Arc::new(std::sync::Mutex::new(None));
                target = Target::Co(slot.clone());
                Box::new(move || {
                    *slot.lock().unwrap() = Some(may::coroutine::current());
                    may::coroutine::park_timeout(dur);
                    R_NONE
                })
            }
        };
        keep.push(target.clone());
        if before && e != u64::MAX && !matches!(kind, K_BLOCKER | K_PARKTO | K_SLEEP) {
            pre_events.push((ai, target.clone()));
        }
        let (log2, states2, call_at2) = (log.clone(), states.clone(), call_at.clone());
        let ctx = if kind == K_PARKTO { CO } else { a.ctx };
        let start = a.ops.get(2).map_or(0, u64_of);
        waiters.push((ai, ctx, kind, move || {
            let _dg = DoneGuard(&states2, ai);
            // staggered starts: timers of the same duration armed at different times
            if start > 0 {
                sleep_ns(start);
            }
            states2.enter(ai, 0, kind);
            let c = log2.call(ai, 0, kind);
            call_at2[ai].store(sched::now_ns(), Ordering::SeqCst);
            let r = body();
            log2.ret(c, r, 0);
        }));
        if e != u64::MAX && !(before && !matches!(kind, K_BLOCKER | K_PARKTO | K_SLEEP)) && kind != K_SLEEP {
            let (states2, call_at2, fired2) = (states.clone(), call_at.clone(), fired.clone());
            let slot_needed = matches!(kind, K_BLOCKER | K_PARKTO);
            eventers.push((ai, ev_ctx, move || {
                let me = n + ai;
                let _dg = DoneGuard(&states2, me);
                states2.enter(me, 0, 100);
                // wait until the waiter has published its call time (and its handle)
                let ready = poll_until(
                    || {
                        let t = call_at2[ai].load(Ordering::SeqCst);
                        let ready = match &target {
                            Target::Blocker(b) => b.lock().unwrap().is_some(),
                            Target::Co(c) => c.lock().unwrap().is_some(),
                            _ => true,
                        };
                        t != 0 && (ready || !slot_needed)
                    },
                    10_000_000_000,
                );
                if !ready {
                    return;
                }
                let at = call_at2[ai].load(Ordering::SeqCst) + e;
                let now = sched::now_ns();
                if at > now {
                    sleep_ns(at - now);
                }
                fired2[ai][0].store(sched::stamp(), Ordering::SeqCst);
                fired2[ai][2].store(sched::now_ns(), Ordering::SeqCst);
                fire(&target);
                fired2[ai][1].store(sched::stamp(), Ordering::SeqCst);
            }));
        }
    }
    // events that precede the wait
    for (ai, t) in pre_events {
        fired[ai][0].store(sched::stamp(), Ordering::SeqCst);
        fired[ai][2].store(sched::now_ns(), Ordering::SeqCst);
        fire(&t);
        fired[ai][1].store(sched::stamp(), Ordering::SeqCst);
    }
    let mut hs = vec![];
    for (_ai, ctx, _k, f) in waiters {
        hs.push(spawn(ctx, "waiter", f));
    }
    let mut es = vec![];
    for (_ai, ctx, f) in eventers {
        es.push(spawn(ctx, "eventer", f));
    }
    for (i, h) in hs.into_iter().enumerate() {
        let e = h.join();
        if !e.is_ok() {
            out.fail("waiter-ended-abnormally", format!("waiter {i} {}", e.kind()));
        }
    }
    for h in es {
        let e = h.join();
        if !e.is_ok() {
            out.fail("eventer-ended-abnormally", e.kind());
        }
    }
    drop(keep);
    crate::child::settle();

    // ---------------- oracle ----------------
    let obs = log.take();
    let stalls = case.has_stall();
    let mut near_deadline = false;
    let mut removed_timer = false;
    for o in &obs {
        let a = &case.actors[o.actor];
        let kind = o.op;
        let d = u64_of(&a.ops[0]);
        let el = o.vr - o.vc;
        let f_call = fired[o.actor][0].load(Ordering::SeqCst);
        let f_ret = fired[o.actor][1].load(Ordering::SeqCst);
        let f_at = fired[o.actor][2].load(Ordering::SeqCst);
        let issued_before_ret = f_call != 0 && f_call < o.r;
        let issued_before_call = f_ret != 0 && f_ret < o.c;
        let name = opname(kind);
        let dc = dur_class(d);
        let cx = ctx_name(if kind == K_PARKTO { CO } else { a.ctx });
        match o.res {
            R_TIMEOUT => {
                if el < d {
                    out.fail(&format!("timeout-early:{name}/{cx}:{dc}"), format!("waiter {} elapsed {el} ns < d {d} ns", o.actor));
                }
                // the event had been issued completely before the call: it must win
                // (condvar: a notification before the wait is lost by design; cqueue: the
                // event is the arm's send, which needs the arm to be scheduled in time)
                if issued_before_call && kind != K_CONDVAR && kind != K_CQUEUE {
                    out.fail(&format!("timeout-although-event-was-there:{name}/{cx}"), format!("waiter {}", o.actor));
                }
            }
            R_EVENT => {
                if !issued_before_ret {
                    out.fail(&format!("event-result-without-event:{name}/{cx}"), format!("waiter {} d {d}", o.actor));
                }
                if el < d {
                    removed_timer = true;
                }
            }
            R_NONE => {
                if kind == K_SLEEP && el < d {
                    out.fail(&format!("sleep-early:{cx}:{dc}"), format!("waiter {} elapsed {el} < d {d}", o.actor));
                }
            }
            _ => {
                if kind != K_CONDVAR {
                    out.fail(&format!("unexpected-result:{name}/{cx}"), format!("waiter {}", o.actor));
                }
            }
        }
        // promptness: nothing else delays it (no stall fault): the call is over by its
        // deadline plus granularity plus the time accounted to executed schedule points
        if !stalls {
            let ceil_ms = d.div_ceil(1_000_000).saturating_mul(1_000_000);
            let bound = ceil_ms.max(1_000_000).saturating_add(1_000_000 + o.tick);
            if el > bound {
                out.fail(&format!("late:{name}/{cx}:{dc}"), format!("waiter {} elapsed {el} ns, d {d} ns, bound {bound} ns (tick {})", o.actor, o.tick));
            }
        }
        if f_at != 0 {
            let dl = o.vc.saturating_add(d);
            if f_at.abs_diff(dl) < 1_000_000 {
                near_deadline = true;
            }
        }
    }
    if obs.len() != n {
        out.fail("missing-observation", format!("{} of {n}", obs.len()));
    }
    let mut ds: Vec<u64> = case.actors.iter().map(|a| u64_of(&a.ops[0])).collect();
    ds.sort();
    ds.dedup();
    let pre = sched::preempts() > 0;
    out.flag_if(ds.len() >= 2 && n >= 2, "several_intervals_pending");
    out.flag_if(near_deadline, "event_within_1ms_of_deadline");
    out.flag_if(removed_timer, "timer_removed_early");
    out.flag_if(stalls, "stall_fault");
    out.flag_if(pre, "preempted");
    for a in &case.actors {
        out.flag(dur_class(u64_of(&a.ops[0])));
        out.flag(opname(a.ops[0].0));
    }
    out.flag_if(obs.iter().any(|o| o.res == R_TIMEOUT), "timeout_seen");
    out.flag_if(obs.iter().any(|o| o.res == R_EVENT), "event_seen");
    out.nontrivial = (ds.len() >= 2 && n >= 2) || near_deadline || removed_timer || (stalls && sched::preempts() > 0);
    out
}

fn split(v: u64) -> (u32, u32) {
    (v as u32, (v >> 32) as u32)
}

pub fn strategy(g: &GenCfg) -> BoxedStrategy<Case> {
    let kind = prop_oneof![
        2 => Just(K_SLEEP),
        2 => Just(K_MPSC),
        1 => Just(K_MPMC),
        2 => Just(K_SEM),
        1 => Just(K_FLAG),
        2 => Just(K_CONDVAR),
        1 => Just(K_CQUEUE),
        2 => Just(K_BLOCKER),
        1 => Just(K_PARKTO),
    ];
    let actor = (kind.clone(), gen::duration_ns(true), 0u8..2, 0u8..2, prop_oneof![2 => Just(0u64), 1 => 0u64..30_000_000], 0u8..3).prop_flat_map(|(kind, d, ctx, ev_ctx, start, same)| {
        // the event: never / before the call / somewhere in [0, 2d] / at the deadline +- a bit
        let e = prop_oneof![
            3 => Just((u64::MAX, false)),
            1 => Just((0u64, true)),
            2 => (0u64..=(2 * d.min(200_000_000)).max(1)).prop_map(|e| (e, false)),
            3 => (0u64..8_000).prop_map(move |off| (d.saturating_add(off).saturating_sub(3_000), false)),
        ];
        e.prop_map(move |(e, before)| {
            // a wait that cannot time out within the case needs its event (a sleep needs an end)
            let huge = d >= 1u64 << 62;
            let (e, before) = if huge { (e % 400_000, false) } else { (e, before) };
            let kind = if huge && kind == K_SLEEP { K_SEM } else { kind };
            let (dl, dh) = split(d);
            let (el, eh) = split(e);
            let (sl, sh) = split(start.min(d));
            // role 1 = "use the duration of the previous actor" (resolved below)
            Actor { ctx, role: (same == 0) as u8, ops: vec![Op(kind, dl, dh), Op(ev_ctx | if before { 0x10 } else { 0 }, el, eh), Op(START, sl, sh)] }
        })
    });
    let g2 = g.clone();
    // template (one case in eight): X and Y share a duration (one interval list), X's wait is
    // satisfied early so that its timer is removed while Y's is queued behind it, and a
    // timer Z of another duration expires between X's and Y's expiry - Z must not be late
    let g3 = g.clone();
    let ev_kind = prop_oneof![Just(K_SEM), Just(K_MPSC), Just(K_FLAG), Just(K_BLOCKER), Just(K_PARKTO), Just(K_MPMC)];
    let template = (ev_kind, kind.clone(), kind.clone(), (0u8..2, 0u8..2, 0u8..2, 0u8..2), prop_oneof![(2u64..30).prop_map(|ms| ms * 1_000_000), 2_000_000u64..30_000_000], (10u64..60, 5u64..95, 10u64..90))
        .prop_flat_map(move |(kx, ky, kz, (cx, cy, cz, ec), d, (pe, ps, pz))| {
            let s = d * ps / 100;
            let mk = |kind: u8, d: u64, ctx: u8, e: u64, start: u64| {
                let (dl, dh) = split(d);
                let (el, eh) = split(e);
                let (sl, sh) = split(start.min(d));
                Actor { ctx, role: 0, ops: vec![Op(kind, dl, dh), Op(ec, el, eh), Op(START, sl, sh)] }
            };
            let actors = vec![mk(kx, d, cx, d * pe / 100, 0), mk(ky, d, cy, u64::MAX, s), mk(kz, d + s * pz / 100, cz, u64::MAX, 0)];
            (Just(actors), gen::config(&g3), gen::schedule(&g3, false))
        })
        .prop_map(|(actors, (workers, pool, feat), sched)| Case { fam: "timed".into(), workers, pool, feat, cfg: vec![], actors, sched, weak: 0 });
    let general = (proptest::collection::vec(actor, 1..=5), gen::config(&g2), prop_oneof![2 => gen::schedule(&g2, false), 1 => gen::schedule(&g2, true)])
        .prop_map(|(mut actors, (workers, pool, feat), sched)| {
            // several timers of the same duration (one interval list of the timer thread)
            for i in 1..actors.len() {
                // (not the huge durations: those need their own event, see above)
                if actors[i].role == 1 && actors[i - 1].ops[0].2 < (1 << 30) && actors[i].ops[0].2 < (1 << 30) {
                    let (a, b) = (actors[i - 1].ops[0].1, actors[i - 1].ops[0].2);
                    actors[i].ops[0].1 = a;
                    actors[i].ops[0].2 = b;
                }
                actors[i].role = 0;
            }
            actors[0].role = 0;
            Case { fam: "timed".into(), workers, pool, feat, cfg: vec![], actors, sched, weak: 0 }
        });
    prop_oneof![7 => general, 1 => template].boxed()
}
