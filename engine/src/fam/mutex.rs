//! `mutex` family (C05): mutual exclusion, no stranded waiter, try_lock, cancellation of waiters
//!
//! actors role 0 = locker (thread or coroutine), role 9 = canceller: ops (CANCEL, target, delay ns)
use crate::case::{Actor, Case, Op, Outcome};
use crate::gen::{self, GenCfg};
use crate::sched;
use crate::util::*;
use may::sync::Mutex;
use proptest::prelude::*;
use std::sync::atomic::{AtomicUsize, Ordering};
use std::sync::Arc;

pub const LOCK: u8 = 0; // arg = yields inside the section
pub const TRY: u8 = 1;
pub const YIELD: u8 = 2;
pub const SLEEP: u8 = 3; // arg ns
pub const CANCEL: u8 = 20; // (target actor, delay ns)
pub const CANCEL_AT: u8 = 21; // (target actor, (op index << 16) | delay ns): aimed at the begin of an operation

const OK: i64 = 0;
const WOULD_BLOCK: i64 = 1;
const POISONED: i64 = 2;

pub fn opname(op: u8) -> &'static str {
    match op {
        LOCK => "lock",
        TRY => "try_lock",
        YIELD => "yield",
        SLEEP => "sleep",
        CANCEL => "cancel",
        _ => "?",
    }
}

pub struct Occ<'a>(pub &'a AtomicUsize);
impl Drop for Occ<'_> {
    fn drop(&mut self) {
        self.0.fetch_sub(1, Ordering::SeqCst);
    }
}

/// spawn the canceller actors of a case; returns their handles
pub fn spawn_cancellers(case: &Case, handles: &[Option<may::coroutine::Coroutine>]) -> Vec<H<()>> {
    let mut out = vec![];
    for a in case.actors.iter().filter(|a| a.role == 9) {
        let mut plan = vec![];
        for op in &a.ops {
            if let Some(Some(co)) = handles.get(op.1 as usize) {
                plan.push((co.clone(), op.0, op.1 as usize, op.2 as u64));
            }
        }
        out.push(spawn(a.ctx, "canceller", move || {
            for (co, kind, target, arg) in plan {
                if kind == CANCEL_AT {
                    // aimed: a few schedule points after the target has entered its op `idx`
                    // (check - yield - register - re-check of a blocking operation)
                    if let Some(st) = States::current() {
                        st.wait_reached(target, (arg >> 16) as usize);
                    }
                    let d = arg & 0xffff;
                    if d > 0 {
                        sleep_ns(d);
                    }
                } else if arg > 0 {
                    sleep_ns(arg);
                }
                unsafe { co.cancel() };
            }
        }));
    }
    out
}

/// which actors are cancel targets
pub fn cancel_targets(case: &Case) -> Vec<usize> {
    let mut t = vec![];
    for a in case.actors.iter().filter(|a| a.role == 9) {
        for op in &a.ops {
            let i = op.1 as usize;
            if i < case.actors.len() && case.actors[i].ctx == CO && case.actors[i].role != 9 {
                t.push(i);
            }
        }
    }
    t
}

pub fn run(case: &Case) -> Outcome {
    let mut out = Outcome::new();
    let m = Arc::new(Mutex::new(0usize));
    let occ = Arc::new(AtomicUsize::new(0));
    let bad_excl = Arc::new(AtomicUsize::new(0));
    let bad_try = Arc::new(AtomicUsize::new(0));
    let entered = Arc::new(AtomicUsize::new(0));
    let log = Log::new();
    let desc: Vec<String> = case.actors.iter().map(|a| format!("{}/{}", if a.role == 9 { "canceller" } else { "locker" }, ctx_name(a.ctx))).collect();
    let states = States::install(desc, opname);
    let mut handles = vec![];
    let mut cos = vec![];
    for (ai, a) in case.actors.iter().enumerate() {
        if a.role == 9 {
            cos.push(None);
            continue;
        }
        let (m, occ, bad_excl, bad_try, entered, log, states) = (m.clone(), occ.clone(), bad_excl.clone(), bad_try.clone(), entered.clone(), log.clone(), states.clone());
        let ops = a.ops.clone();
        let h = spawn(a.ctx, "locker", move || {
            let _dg = DoneGuard(&states, ai);
            for (i, op) in ops.iter().enumerate() {
                states.enter(ai, i, op.0);
                match op.0 {
                    LOCK | TRY => {
                        let c = log.call(ai, i, op.0);
                        let g = if op.0 == LOCK {
                            match m.lock() {
                                Ok(g) => Some((g, OK)),
                                Err(e) => Some((e.into_inner(), POISONED)),
                            }
                        } else {
                            match m.try_lock() {
                                Ok(g) => Some((g, OK)),
                                Err(std::sync::TryLockError::Poisoned(e)) => Some((e.into_inner(), POISONED)),
                                Err(std::sync::TryLockError::WouldBlock) => None,
                            }
                        };
                        match g {
                            None => {
                                log.ret(c, WOULD_BLOCK, 0);
                            }
                            Some((mut g, res)) => {
                                // inside the critical section
                                let before = occ.fetch_add(1, Ordering::SeqCst);
                                let o = Occ(&occ);
                                if before != 0 {
                                    if op.0 == TRY {
                                        bad_try.fetch_add(1, Ordering::SeqCst);
                                    } else {
                                        bad_excl.fetch_add(1, Ordering::SeqCst);
                                    }
                                }
                                log.ret(c, res, 0);
                                // a read-modify-write of the protected data with schedule points
                                // inside: a second holder would lose an update
                                let v = *g;
                                entered.fetch_add(1, Ordering::SeqCst);
                                *g = v + 1;
                                for _ in 0..op.1 {
                                    let v = *g;
                                    pause();
                                    *g = v;
                                }
                                drop(o);
                                drop(g);
                            }
                        }
                    }
                    YIELD => pause(),
                    SLEEP => sleep_ns(op.1 as u64),
                    _ => {}
                }
                states.leave(ai, i);
            }
        });
        cos.push(h.coroutine().cloned());
        handles.push((ai, h));
    }
    let cancellers = spawn_cancellers(case, &cos);
    let targets = cancel_targets(case);
    let mut cancelled = 0;
    for (ai, h) in handles {
        match h.join() {
            End::Ok(()) => {}
            End::Cancel => {
                cancelled += 1;
                if !targets.contains(&ai) {
                    out.fail("cancel-observed-by-uncancelled-actor", format!("actor {ai}"));
                }
            }
            End::Panic(s) => out.fail("actor-panicked", format!("actor {ai}: {s}")),
        }
    }
    for h in cancellers {
        let _ = h.join();
    }
    crate::child::settle();

    // ---------------- oracle ----------------
    if bad_excl.load(Ordering::SeqCst) > 0 {
        out.fail("mutual-exclusion", "two holders inside the critical section".into());
    }
    if bad_try.load(Ordering::SeqCst) > 0 {
        out.fail("try-lock-succeeded-while-held", String::new());
    }
    match m.try_lock() {
        Ok(g) => {
            let total = *g;
            let e = entered.load(Ordering::SeqCst);
            if total != e {
                out.fail("lost-update", format!("protected counter {total}, sections entered {e}"));
            }
        }
        Err(std::sync::TryLockError::WouldBlock) => out.fail("lock-not-free-at-the-end", format!("cancelled={cancelled}")),
        Err(std::sync::TryLockError::Poisoned(_)) => out.fail("poisoned-without-panic", format!("cancelled={cancelled}")),
    }
    if m.is_poisoned() {
        out.fail("poisoned-without-panic", format!("cancelled={cancelled}"));
    }
    let obs = log.take();
    let locks: Vec<&Obs> = obs.iter().filter(|o| o.op == LOCK && o.res != WOULD_BLOCK).collect();
    // contention: a lock() call that overlapped another holder's section
    let contended = locks.iter().any(|a| locks.iter().any(|b| a.actor != b.actor && a.c < b.r && b.c < a.r));
    let pre = sched::preempts() > 0;
    out.flag_if(contended, "lock_calls_overlapped");
    out.flag_if(pre, "preempted");
    out.flag_if(cancelled > 0, "cancel_delivered");
    out.flag_if(!targets.is_empty(), "cancel_planned");
    out.flag_if(sched::preempted_in("sync/mutex.rs"), "preempted_inside_mutex_rs");
    out.flag_if(case.actors.iter().any(|a| a.ctx == TH && a.role == 0) && case.actors.iter().any(|a| a.ctx == CO && a.role == 0), "mixed_ctx");
    out.nontrivial = pre && contended;
    out.num("entered", entered.load(Ordering::SeqCst) as i64);
    out
}

pub fn canceller_strategy(n_actors: usize, max_delay_ns: u32) -> BoxedStrategy<Option<Actor>> {
    let one = prop_oneof![
        2 => (0..n_actors as u32, prop_oneof![2 => 0u32..3_000, 1 => 0u32..max_delay_ns.max(1)]).prop_map(|(t, d)| Op(CANCEL, t, d)),
        1 => (0..n_actors as u32, 0u32..5, prop_oneof![1 => Just(0u32), 2 => 0u32..2_500]).prop_map(|(t, idx, d)| Op(CANCEL_AT, t, (idx << 16) | d)),
    ];
    prop_oneof![
        2 => Just(None),
        1 => (0u8..2, proptest::collection::vec(one, 1..3)).prop_map(|(ctx, ops)| Some(Actor { ctx, role: 9, ops })),
    ]
    .boxed()
}

pub fn strategy(g: &GenCfg) -> BoxedStrategy<Case> {
    let op = prop_oneof![
        6 => (0u32..3).prop_map(|w| Op(LOCK, w, 0)),
        2 => (0u32..2).prop_map(|w| Op(TRY, w, 0)),
        1 => Just(Op(YIELD, 0, 0)),
        1 => (0u32..3_000).prop_map(|ns| Op(SLEEP, ns, 0)),
    ];
    let actor = (0u8..2, proptest::collection::vec(op, 1..5)).prop_map(|(ctx, ops)| Actor { ctx, role: 0, ops });
    let g2 = g.clone();
    proptest::collection::vec(actor, 2..=5)
        .prop_flat_map(move |actors| {
            let n = actors.len();
            (Just(actors), canceller_strategy(n, 20_000), gen::config(&g2), gen::schedule(&g2, false))
        })
        .prop_map(|(mut actors, canc, (workers, pool, feat), sched)| {
            if let Some(c) = canc {
                actors.push(c);
            }
            Case { fam: "mutex".into(), workers, pool, feat, cfg: vec![], actors, sched, weak: 0 }
        })
        .boxed()
}
