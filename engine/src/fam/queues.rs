//! queue families on `may_queue` directly, no runtime (C03 q_mpsc/q_spsc, C04 q_spmc, C19 q_list)
//!
//! q_mpsc: cfg = [kind 0 mpsc | 1 spsc, start offset, values left in the queue when it is dropped]
//!         role 0 = producer (thread), ops = PUSH..; role 1 = consumer (main thread)
//! q_spmc: cfg = [api 0 Local/Steal | 1 raw Queue, start offset]
//!         role 0 = owner ops (PUSH / POP), role 1 = stealer ops (STEAL / EMPTY / BULK / POP)
//! q_list: cfg = [0]; role 0 = producer (PUSH..), role 1 = consumer ops
use crate::case::{Actor, Case, Op, Outcome};
use crate::gen::{self, GenCfg};
use crate::sched;
use crate::util::*;
use proptest::prelude::*;
use std::collections::{HashMap, HashSet};
use std::sync::atomic::{AtomicUsize, Ordering};
use std::sync::{Arc, Mutex};

pub const PUSH: u8 = 0;
pub const POP: u8 = 1;
pub const BULK: u8 = 2;
pub const PEEK: u8 = 3;
pub const LEN: u8 = 4;
pub const EMPTY: u8 = 5;
pub const STEAL: u8 = 6;
pub const POP_IF: u8 = 7; // arg = residue the predicate rejects
pub const REMOVE: u8 = 8; // arg = which known handle (monotone index map)
pub const YIELD: u8 = 9;
/// owner only: end of a phase, the schedule goes on with its next segment (sched::sync_point)
pub const SYNC: u8 = 10;

pub fn opname(op: u8) -> &'static str {
    match op {
        PUSH => "push",
        POP => "pop",
        BULK => "bulk_pop",
        PEEK => "peek",
        LEN => "len",
        EMPTY => "is_empty",
        STEAL => "steal_into",
        POP_IF => "pop_if",
        REMOVE => "remove",
        YIELD => "yield",
        _ => "?",
    }
}

// ---------------------------------------------------------------------------------------
// single consumer FIFO queues: mpsc and spsc (C03)
// ---------------------------------------------------------------------------------------
enum Q {
    Mpsc(may::queue::mpsc::Queue<Tok>),
    Spsc(may::queue::spsc::Queue<Tok>),
}
impl Q {
    fn push(&self, t: Tok) {
        match self {
            Q::Mpsc(q) => q.push(t),
            Q::Spsc(q) => q.push(t),
        }
    }
    fn pop(&self) -> Option<Tok> {
        match self {
            Q::Mpsc(q) => q.pop(),
            Q::Spsc(q) => q.pop(),
        }
    }
    fn bulk_pop(&self) -> Vec<Tok> {
        match self {
            Q::Mpsc(q) => q.bulk_pop().into_iter().collect(),
            Q::Spsc(q) => q.bulk_pop().into_iter().collect(),
        }
    }
    fn peek(&self) -> Option<usize> {
        unsafe {
            match self {
                Q::Mpsc(q) => q.peek().map(|t| if t.valid() { t.id } else { usize::MAX }),
                Q::Spsc(q) => q.peek().map(|t| if t.valid() { t.id } else { usize::MAX }),
            }
        }
    }
    fn len(&self) -> usize {
        match self {
            Q::Mpsc(q) => q.len(),
            Q::Spsc(q) => q.len(),
        }
    }
    fn is_empty(&self) -> bool {
        match self {
            Q::Mpsc(q) => q.is_empty(),
            Q::Spsc(q) => q.is_empty(),
        }
    }
}

/// one logged operation of the consumer
struct COp {
    op: u8,
    c: u64,
    r: u64,
    /// ids obtained (pop / bulk_pop), peeked id, or len / empty answer
    ids: Vec<usize>,
    num: i64,
}

pub fn run_fifo(case: &Case) -> Outcome {
    let mut out = Outcome::new();
    // a freed block is handed out again at once: a producer that still uses it sees foreign data
    crate::lifo::enable();
    let kind = case.cfg(0);
    let offset = case.cfg(1).max(0) as usize;
    let left = case.cfg(2).max(0) as usize;
    let block = if kind == 0 { 64 } else { 32 };
    let q = Arc::new(if kind == 0 { Q::Mpsc(may::queue::mpsc::Queue::new()) } else { Q::Spsc(may::queue::spsc::Queue::new()) });
    let producers: Vec<(usize, &Actor)> = case.actors.iter().enumerate().filter(|(_, a)| a.role == 0).collect();
    let consumer = case.actors.iter().find(|a| a.role == 1).map(|a| a.ops.clone()).unwrap_or_default();
    let mut base = vec![];
    let mut total = 0;
    for (_, a) in &producers {
        base.push(total);
        total += a.ops.iter().filter(|o| o.0 == PUSH).count();
    }
    let ledger = Ledger::new(total + offset + 1);
    // start offset: values pushed and popped before the concurrent phase (block position)
    for i in 0..offset {
        q.push(ledger.tok(total + i));
    }
    for i in 0..offset {
        match q.pop() {
            Some(t) if t.take() == total + i => {}
            _ => out.fail("sequential-prefix-wrong", format!("offset value {i}")),
        }
    }
    // (id, call, ret) of every push
    let pushes: Arc<Mutex<Vec<(usize, u64, u64)>>> = Arc::new(Mutex::new(vec![]));
    let desc: Vec<String> = case.actors.iter().map(|a| if a.role == 0 { "producer".to_string() } else { "consumer".to_string() }).collect();
    let states = States::install(desc, opname);
    let mut hs = vec![];
    for (pi, (ai, a)) in producers.iter().enumerate() {
        let (q, pushes, ledger, states) = (q.clone(), pushes.clone(), ledger.clone(), states.clone());
        let ops = a.ops.clone();
        let b = base[pi];
        let ai = *ai;
        hs.push(sched::vspawn("producer", move || {
            let _dg = DoneGuard(&states, ai);
            let mut k = 0;
            for (i, op) in ops.iter().enumerate() {
                states.enter(ai, i, op.0);
                if op.0 == PUSH {
                    let id = b + k;
                    k += 1;
                    let t = ledger.tok(id);
                    let c = sched::stamp();
                    q.push(t);
                    let r = sched::stamp();
                    pushes.lock().unwrap().push((id, c, r));
                } else {
                    sched::yield_now();
                }
                states.leave(ai, i);
            }
        }));
    }
    // the consumer is the main thread
    let mut cops: Vec<COp> = vec![];
    fn consume(q: &Q, op: u8, cops: &mut Vec<COp>) {
        let c = sched::stamp();
        let (ids, num) = match op {
            POP => (q.pop().map(|t| vec![t.take()]).unwrap_or_default(), 0),
            BULK => (q.bulk_pop().into_iter().map(|t| t.take()).collect(), 0),
            PEEK => (q.peek().map(|i| vec![i]).unwrap_or_default(), 0),
            LEN => (vec![], q.len() as i64),
            EMPTY => (vec![], q.is_empty() as i64),
            _ => {
                sched::yield_now();
                return;
            }
        };
        cops.push(COp { op, c, r: sched::stamp(), ids, num });
    }
    for op in &consumer {
        consume(&q, op.0, &mut cops);
    }
    for h in hs {
        if h.join().is_err() {
            out.fail("producer-panicked", crate::child::LAST_PANIC.lock().unwrap().clone());
        }
    }
    // final phase: drain all but `left` values, then drop the queue with the rest inside
    let popped_so_far: usize = cops.iter().filter(|o| o.op == POP || o.op == BULK).map(|o| o.ids.len()).sum();
    let remaining = total - popped_so_far.min(total);
    let to_pop = remaining.saturating_sub(left);
    for _ in 0..to_pop {
        consume(&q, POP, &mut cops);
    }
    sched::stop_exploring();
    let in_queue_at_drop = remaining - to_pop;
    drop(q);

    // ---------------- oracle: FIFO linearizability for one consumer (DESIGN.md 4) ----------------
    let pushes = pushes.lock().unwrap().clone();
    let pmap: HashMap<usize, (u64, u64)> = pushes.iter().map(|(id, c, r)| (*id, (*c, *r))).collect();
    let producer_of = |id: usize| -> usize { (0..base.len()).rev().find(|&p| base[p] <= id).unwrap_or(0) };
    let mut popped_at: HashMap<usize, usize> = HashMap::new(); // id -> index of the consumer op
    let mut order: Vec<usize> = vec![];
    for (k, o) in cops.iter().enumerate() {
        if o.op == POP || o.op == BULK {
            for id in &o.ids {
                if *id == usize::MAX || *id >= total {
                    out.fail("popped-garbage", format!("consumer op {k} {} returned an uninitialised or foreign value", opname(o.op)));
                    continue;
                }
                if popped_at.insert(*id, k).is_some() {
                    out.fail("popped-twice", format!("id {id}"));
                }
                match pmap.get(id) {
                    // a value can not come out before its push has begun
                    Some((pc, _)) if *pc < o.r => {}
                    _ => out.fail("popped-before-pushed", format!("id {id}")),
                }
                order.push(*id);
            }
        }
    }
    // (b) per producer order, (c) real-time order across producers
    let mut last: HashMap<usize, usize> = HashMap::new();
    for id in &order {
        let p = producer_of(*id);
        if let Some(l) = last.insert(p, *id) {
            if l >= *id {
                out.fail("per-producer-order", format!("{id} came out after {l} of the same producer"));
            }
        }
    }
    for (i, a) in order.iter().enumerate() {
        for b in order.iter().skip(i + 1) {
            // b came out after a: illegal if push(b) had returned before push(a) was called
            if let (Some((ac, _)), Some((_, br))) = (pmap.get(a), pmap.get(b)) {
                if br < ac {
                    out.fail("real-time-order", format!("{b} was completely pushed before the push of {a} began, but came out later"));
                }
            }
        }
    }
    // (d) empty answers, (e) len bounds, peek
    for (k, o) in cops.iter().enumerate() {
        let popped_before: HashSet<usize> = popped_at.iter().filter(|(_, kk)| **kk < k).map(|(id, _)| *id).collect();
        let certainly_in: Vec<usize> = pushes.iter().filter(|(id, _, r)| *r < o.c && !popped_before.contains(id)).map(|(id, _, _)| *id).collect();
        let possibly_in = pushes.iter().filter(|(id, c, _)| *c < o.r && !popped_before.contains(id)).count();
        let empty_answer = match o.op {
            POP | BULK | PEEK => o.ids.is_empty(),
            LEN => o.num == 0,
            EMPTY => o.num == 1,
            _ => false,
        };
        if empty_answer && !certainly_in.is_empty() {
            out.fail(&format!("empty-but-not-empty:{}", opname(o.op)), format!("consumer op {k}: values {:?} were completely pushed before the call and not yet popped", &certainly_in[..certainly_in.len().min(4)]));
        }
        if o.op == EMPTY && o.num == 0 && possibly_in == 0 {
            out.fail("not-empty-but-empty", format!("consumer op {k}: is_empty() == false with nothing pushed"));
        }
        if o.op == LEN {
            let lo = certainly_in.len() as i64;
            let hi = possibly_in as i64;
            if o.num < lo || o.num > hi {
                out.fail("len-out-of-bounds", format!("consumer op {k}: len() = {} not in [{lo}, {hi}]", o.num));
            }
        }
        if o.op == PEEK && !o.ids.is_empty() {
            // the peeked value is the next one to come out
            let next = cops.iter().skip(k + 1).find(|x| (x.op == POP || x.op == BULK) && !x.ids.is_empty()).map(|x| x.ids[0]);
            if o.ids[0] == usize::MAX || (next.is_some() && next != Some(o.ids[0])) {
                out.fail("peek-is-not-the-head", format!("consumer op {k}: peeked {:?}, next popped {next:?}", o.ids[0]));
            }
        }
    }
    // nothing lost: everything pushed came out or was still inside at the drop
    if order.len() + in_queue_at_drop != total {
        out.fail("value-lost", format!("{} pushed, {} popped, {in_queue_at_drop} left inside", total, order.len()));
    }
    for id in 0..total {
        let d = ledger.drops(id);
        if d != 1 {
            out.fail(if d == 0 { "value-leaked-at-drop" } else { "value-dropped-twice" }, format!("id {id}: {d} drops (popped: {})", popped_at.contains_key(&id)));
        }
    }
    // classification
    let overlap = cops.iter().any(|o| matches!(o.op, POP | BULK | PEEK) && pushes.iter().any(|(_, c, r)| *c < o.r && o.c < *r));
    let crossed = offset % block + total >= block;
    let pre = sched::preempts() > 0;
    out.flag(if kind == 0 { "mpsc" } else { "spsc" });
    out.flag_if(overlap, "pop_overlaps_push");
    out.flag_if(crossed, "block_boundary_crossed");
    out.flag_if(offset + total >= 2 * block, "two_boundaries");
    out.flag_if(in_queue_at_drop > 0, "dropped_non_empty");
    out.flag_if(pre, "preempted");
    out.nontrivial = overlap && crossed && pre;
    out.num("values", total as i64);
    out
}

// ---------------------------------------------------------------------------------------
// work stealing queue (C04)
// ---------------------------------------------------------------------------------------
type Task = Box<Tok>;

pub fn run_spmc(case: &Case) -> Outcome {
    let mut out = Outcome::new();
    crate::lifo::enable();
    let raw = case.cfg(0) == 1;
    let offset = case.cfg(1).max(0) as usize;
    let owner_ops = case.actors.iter().find(|a| a.role == 0).map(|a| a.ops.clone()).unwrap_or_default();
    let stealers: Vec<(usize, Vec<Op>)> = case.actors.iter().enumerate().filter(|(_, a)| a.role == 1).map(|(i, a)| (i, a.ops.clone())).collect();
    let npush = owner_ops.iter().filter(|o| o.0 == PUSH).count();
    // fillers pushed while the stealers are still running get ids above npush
    let max_ids = npush + 4096;
    let ledger = Ledger::new(max_ids + offset);
    let desc: Vec<String> = case.actors.iter().map(|a| if a.role == 0 { "owner".to_string() } else { "stealer".to_string() }).collect();
    let states = States::install(desc, opname);
    // what every taker obtained: (who, batch ids in the order they must be ascending)
    let got: Arc<Mutex<Vec<(usize, Vec<usize>)>>> = Arc::new(Mutex::new(vec![]));
    let bad_slot = Arc::new(AtomicUsize::new(0));
    let done = Arc::new(AtomicUsize::new(0));
    let mut hs = vec![];
    let nst = stealers.len();
    let mut mine: Vec<usize> = vec![];
    let mut pushed = 0usize;
    let chk = |t: &Task, bad: &AtomicUsize| -> usize {
        let id = t.take();
        if id == usize::MAX {
            bad.fetch_add(1, Ordering::SeqCst);
        }
        id
    };
    if !raw {
        let (steal, mut local) = may::queue::spmc::local::<Task>();
        for i in 0..offset {
            local.push_back(Box::new(ledger.tok(max_ids + i)));
        }
        for _ in 0..offset {
            if local.pop().is_none() {
                out.fail("sequential-prefix-wrong", String::new());
            }
        }
        for (ai, ops) in stealers {
            let (steal, got, bad_slot, done, states) = (steal.clone(), got.clone(), bad_slot.clone(), done.clone(), states.clone());
            hs.push(sched::vspawn("stealer", move || {
                let _dg = DoneGuard(&states, ai);
                let (_s2, mut my) = may::queue::spmc::local::<Task>();
                for (i, op) in ops.iter().enumerate() {
                    states.enter(ai, i, op.0);
                    match op.0 {
                        STEAL => {
                            if let Some(t) = steal.steal_into(&mut my) {
                                let mut batch = vec![];
                                while let Some(r) = my.pop() {
                                    batch.push(chk(&r, &bad_slot));
                                }
                                batch.push(chk(&t, &bad_slot));
                                got.lock().unwrap().push((ai, batch));
                            }
                        }
                        EMPTY => {
                            let _ = steal.is_empty();
                        }
                        _ => sched::yield_now(),
                    }
                    states.leave(ai, i);
                }
                done.fetch_add(1, Ordering::SeqCst);
            }));
        }
        for op in &owner_ops {
            if op.0 == PUSH {
                local.push_back(Box::new(ledger.tok(pushed)));
                pushed += 1;
            } else if op.0 == SYNC {
                sched::sync_point();
            } else if let Some(t) = local.pop() {
                mine.push(chk(&t, &bad_slot));
            }
        }
        // keep servicing like a real worker until the stealers are done: a taker that
        // over-claimed is only released by the owner's next push
        let mut round = 0usize;
        while done.load(Ordering::SeqCst) < nst {
            round += 1;
            if round % 2 == 0 && pushed < max_ids {
                local.push_back(Box::new(ledger.tok(pushed)));
                pushed += 1;
            } else if let Some(t) = local.pop() {
                mine.push(chk(&t, &bad_slot));
            }
            sched::vsleep(100_000);
        }
        while let Some(t) = local.pop() {
            mine.push(chk(&t, &bad_slot));
        }
        for h in hs {
            if h.join().is_err() {
                out.fail("stealer-panicked", crate::child::LAST_PANIC.lock().unwrap().clone());
            }
        }
        sched::stop_exploring();
        drop(local);
        drop(steal);
    } else {
        let q = Arc::new(may::queue::spmc::Queue::<Task>::new());
        for i in 0..offset {
            q.push(Box::new(ledger.tok(max_ids + i)));
        }
        for _ in 0..offset {
            if q.pop().is_none() {
                out.fail("sequential-prefix-wrong", String::new());
            }
        }
        for (ai, ops) in stealers {
            let (q, got, bad_slot, done, states) = (q.clone(), got.clone(), bad_slot.clone(), done.clone(), states.clone());
            hs.push(sched::vspawn("consumer", move || {
                let _dg = DoneGuard(&states, ai);
                for (i, op) in ops.iter().enumerate() {
                    states.enter(ai, i, op.0);
                    match op.0 {
                        POP | STEAL => {
                            if let Some(t) = q.pop() {
                                got.lock().unwrap().push((ai, vec![chk(&t, &bad_slot)]));
                            }
                        }
                        BULK => {
                            let v = q.bulk_pop();
                            if !v.is_empty() {
                                let batch: Vec<usize> = v.iter().map(|t| chk(t, &bad_slot)).collect();
                                got.lock().unwrap().push((ai, batch));
                            }
                        }
                        EMPTY => {
                            let _ = q.is_empty();
                        }
                        _ => sched::yield_now(),
                    }
                    states.leave(ai, i);
                }
                done.fetch_add(1, Ordering::SeqCst);
            }));
        }
        for op in &owner_ops {
            if op.0 == PUSH {
                q.push(Box::new(ledger.tok(pushed)));
                pushed += 1;
            } else if op.0 == SYNC {
                sched::sync_point();
            } else if op.0 == POP && op.1 == 1 {
                // the producer thread takes a value itself, like any consumer
                if let Some(t) = q.pop() {
                    mine.push(chk(&t, &bad_slot));
                }
            } else {
                sched::yield_now();
            }
        }
        let mut round = 0usize;
        while done.load(Ordering::SeqCst) < nst {
            round += 1;
            if round % 2 == 0 && pushed < max_ids {
                q.push(Box::new(ledger.tok(pushed)));
                pushed += 1;
            }
            sched::vsleep(100_000);
        }
        for h in hs {
            if h.join().is_err() {
                out.fail("consumer-panicked", crate::child::LAST_PANIC.lock().unwrap().clone());
            }
        }
        while let Some(t) = q.pop() {
            mine.push(chk(&t, &bad_slot));
        }
        sched::stop_exploring();
        drop(q);
    }
    // ---------------- oracle ----------------
    if bad_slot.load(Ordering::SeqCst) > 0 {
        out.fail("uninitialised-slot-obtained", String::new());
    }
    if mine.windows(2).any(|w| w[0] >= w[1]) {
        out.fail("owner-pop-order", format!("{:?}", &mine[..mine.len().min(12)]));
    }
    let mut all: Vec<usize> = mine.clone();
    for (_who, batch) in got.lock().unwrap().iter() {
        if batch.windows(2).any(|w| w[0] >= w[1]) {
            out.fail("stolen-batch-order", format!("{batch:?}"));
        }
        all.extend(batch.iter().cloned());
    }
    all.sort();
    let want: Vec<usize> = (0..pushed).collect();
    if all != want {
        let set: HashSet<usize> = all.iter().cloned().collect();
        let dup = all.len() != set.len();
        out.fail(if dup { "task-obtained-twice" } else { "task-lost" }, format!("pushed {pushed}, obtained {} (distinct {})", all.len(), set.len()));
    }
    for id in 0..pushed {
        if ledger.drops(id) != 1 {
            out.fail("task-drop-count", format!("id {id}: {} drops", ledger.drops(id)));
        }
    }
    let steals = got.lock().unwrap().len();
    let pre = sched::preempts() > 0;
    out.flag(if raw { "raw_queue" } else { "local_steal" });
    out.flag_if(steals > 0, "successful_steal");
    out.flag_if(offset % 32 + pushed >= 32, "block_boundary_crossed");
    out.flag_if(pre, "preempted");
    out.flag_if(nst >= 2, "several_stealers");
    out.nontrivial = steals > 0 && pre && offset % 32 + pushed >= 32;
    out.num("pushed", pushed as i64);
    out
}

// ---------------------------------------------------------------------------------------
// removable list behind the timers (C19)
// ---------------------------------------------------------------------------------------
/// the protocol of the timer thread on `mpsc_list_v1` (cfg[0] == 1): the consumer drains the
/// list with pop() and then sleeps until a push reports "the list was empty" (is_head). the
/// head reports must identify exactly the pushes after which somebody has to look at the list
/// again: when all producers are done and no report is outstanding, nothing may be left in
/// the list (an entry left there would be a timer that never fires)
fn run_list_timer(case: &Case) -> Outcome {
    use may::queue::mpsc_list_v1::Queue;
    const HEAD_KEY: usize = 0x48454144;
    let mut out = Outcome::new();
    let q = Arc::new(Queue::<(usize, usize)>::new());
    let producers: Vec<(usize, usize)> = case.actors.iter().enumerate().filter(|(_, a)| a.role == 0).map(|(i, a)| (i, a.ops.iter().filter(|o| o.0 == PUSH).count())).collect();
    let total: usize = producers.iter().map(|p| p.1).sum();
    let desc: Vec<String> = case.actors.iter().map(|a| if a.role == 0 { "producer".to_string() } else { "consumer".to_string() }).collect();
    let states = States::install(desc, opname);
    let reports = Arc::new(AtomicUsize::new(0));
    let done = Arc::new(AtomicUsize::new(0));
    let mut hs = vec![];
    for (p, (ai, n)) in producers.iter().cloned().enumerate() {
        let (q, states, reports, done) = (q.clone(), states.clone(), reports.clone(), done.clone());
        hs.push(sched::vspawn("producer", move || {
            let _dg = DoneGuard(&states, ai);
            for i in 0..n {
                states.enter(ai, i, PUSH);
                let (_e, is_head) = q.push((p, i));
                if is_head {
                    reports.fetch_add(1, Ordering::SeqCst);
                    sched::notify(HEAD_KEY);
                }
            }
            done.fetch_add(1, Ordering::SeqCst);
            sched::notify(HEAD_KEY);
        }));
    }
    let np = producers.len();
    let mut got: Vec<(usize, usize)> = vec![];
    let mut sleeps = 0usize;
    loop {
        let r = reports.load(Ordering::SeqCst);
        while let Some(v) = q.pop() {
            got.push(v);
        }
        // sleep until the next head report; the end of the last producer only ends the run
        while reports.load(Ordering::SeqCst) == r && done.load(Ordering::SeqCst) != np {
            sleeps += 1;
            sched::block(HEAD_KEY, Some(sched::now_ns() + 1_000_000_000), false);
        }
        if reports.load(Ordering::SeqCst) == r {
            // all producers are done and no report came after the one we served: nobody
            // will ever tell a timer thread to look at this list again
            break;
        }
    }
    for h in hs {
        if h.join().is_err() {
            out.fail("producer-panicked", crate::child::LAST_PANIC.lock().unwrap().clone());
        }
    }
    // nobody will tell the consumer to look again: the list has to be empty now
    let mut stranded = vec![];
    while let Some(v) = q.pop() {
        stranded.push(v);
    }
    if !stranded.is_empty() {
        out.fail("entries-left-without-a-head-report", format!("{} of {total} entries were still in the list after the last head report had been served: {stranded:?}", stranded.len()));
    }
    // exactly once, per producer order
    let mut next: HashMap<usize, usize> = HashMap::new();
    for (p, i) in got.iter().chain(stranded.iter()) {
        let n = next.entry(*p).or_insert(0);
        if *i != *n {
            out.fail("list-order-or-exactly-once", format!("producer {p}: got entry {i}, expected {n}"));
            break;
        }
        *n += 1;
    }
    if got.len() + stranded.len() != total {
        out.fail("list-entry-lost-or-duplicated", format!("pushed {total}, obtained {}", got.len() + stranded.len()));
    }
    out.flag("timer_protocol");
    out.flag_if(sleeps > 0, "consumer_slept_waiting_for_head_report");
    out.flag_if(sched::preempts() > 0, "preempted");
    out.nontrivial = sched::preempts() > 0 && sleeps > 0 && total >= 2;
    out
}

pub fn run_list(case: &Case) -> Outcome {
    use may::queue::mpsc_list_v1::{Entry, Queue};
    if case.cfg(0) == 1 {
        return run_list_timer(case);
    }
    let mut out = Outcome::new();
    let q = Arc::new(Queue::<(usize, usize)>::new());
    let producers: Vec<(usize, usize)> = case.actors.iter().enumerate().filter(|(_, a)| a.role == 0).map(|(i, a)| (i, a.ops.iter().filter(|o| o.0 == PUSH).count())).collect();
    let cons_ops = case.actors.iter().find(|a| a.role == 1).map(|a| a.ops.clone()).unwrap_or_default();
    // handles travel to the consumer through an un-hooked list
    #[allow(clippy::type_complexity)]
    let handles: Arc<Mutex<Vec<((usize, usize), Entry<(usize, usize)>)>>> = Arc::new(Mutex::new(vec![]));
    // (id, call, ret, is_head)
    #[allow(clippy::type_complexity)]
    let pushed: Arc<Mutex<Vec<((usize, usize), u64, u64, bool)>>> = Arc::new(Mutex::new(vec![]));
    let desc: Vec<String> = case.actors.iter().map(|a| if a.role == 0 { "producer".to_string() } else { "consumer".to_string() }).collect();
    let states = States::install(desc, opname);
    let mut hs = vec![];
    for (p, (ai, n)) in producers.iter().cloned().enumerate() {
        let (q, handles, pushed, states) = (q.clone(), handles.clone(), pushed.clone(), states.clone());
        hs.push(sched::vspawn("producer", move || {
            let _dg = DoneGuard(&states, ai);
            for i in 0..n {
                states.enter(ai, i, PUSH);
                let c = sched::stamp();
                let (e, is_head) = q.push((p, i));
                let r = sched::stamp();
                pushed.lock().unwrap().push(((p, i), c, r, is_head));
                handles.lock().unwrap().push(((p, i), e));
            }
        }));
    }
    // consumer = main thread: (kind, value, call, ret)
    let mut events: Vec<(u8, Option<(usize, usize)>, u64, u64)> = vec![];
    let mut pop_if_lims: HashMap<usize, usize> = HashMap::new();
    let mut removed_consumed = 0usize;
    let mut consumed: HashSet<(usize, usize)> = HashSet::new();
    let mut kept_consumed: Vec<((usize, usize), Entry<(usize, usize)>)> = vec![];
    for op in cons_ops.iter() {
        let c = sched::stamp();
        match op.0 {
            POP => {
                let v = q.pop();
                events.push((POP, v, c, sched::stamp()));
                if let Some(v) = v {
                    consumed.insert(v);
                }
            }
            POP_IF => {
                // (lim == 3: the predicate accepts everything)
                let lim = (op.1 % 4) as usize;
                let v = q.pop_if(&|v: &(usize, usize)| v.1 % 3 != lim);
                pop_if_lims.insert(events.len(), lim);
                events.push((POP_IF, v, c, sched::stamp()));
                if let Some(v) = v {
                    if v.1 % 3 == lim {
                        out.fail("pop_if-returned-rejected-entry", format!("{v:?}"));
                    }
                    consumed.insert(v);
                }
            }
            PEEK => {
                let v = unsafe { q.peek().cloned() };
                events.push((PEEK, v, c, sched::stamp()));
            }
            REMOVE => {
                // a handle we know about: head / middle / last / already consumed
                let h = {
                    let mut hs = handles.lock().unwrap();
                    if op.2 == 1 && !kept_consumed.is_empty() {
                        Some(kept_consumed.swap_remove((op.1 as usize * kept_consumed.len()) >> 16))
                    } else if hs.is_empty() {
                        None
                    } else {
                        let k = (op.1 as usize * hs.len()) >> 16;
                        Some(hs.remove(k))
                    }
                };
                if let Some((id, e)) = h {
                    let was_consumed = consumed.contains(&id);
                    let linked = e.is_link();
                    let v = e.remove();
                    events.push((REMOVE, v, c, sched::stamp()));
                    match v {
                        Some(v) => {
                            if v != id {
                                out.fail("remove-returned-foreign-value", format!("{v:?} for handle {id:?}"));
                            }
                            if was_consumed {
                                out.fail("remove-returned-consumed-entry", format!("{id:?}"));
                            }
                            consumed.insert(v);
                        }
                        None => {
                            // (remove of the newest entry takes no action by design: it is
                            // left for pop)
                            let _ = linked;
                            if was_consumed {
                                removed_consumed += 1;
                            }
                        }
                    }
                }
            }
            EMPTY => {
                let e = q.is_empty();
                events.push((EMPTY, if e { None } else { Some((usize::MAX, 0)) }, c, sched::stamp()));
            }
            _ => sched::yield_now(),
        }
        // keep the handles of entries that were popped meanwhile for "remove of a consumed entry"
        let mut hs2 = handles.lock().unwrap();
        let mut i = 0;
        while i < hs2.len() {
            if consumed.contains(&hs2[i].0) && kept_consumed.len() < 8 {
                let h = hs2.remove(i);
                kept_consumed.push(h);
            } else {
                i += 1;
            }
        }
    }
    for h in hs {
        if h.join().is_err() {
            out.fail("producer-panicked", crate::child::LAST_PANIC.lock().unwrap().clone());
        }
    }
    loop {
        let c = sched::stamp();
        match q.pop() {
            Some(v) => events.push((POP, Some(v), c, sched::stamp())),
            None => break,
        }
    }
    sched::stop_exploring();
    handles.lock().unwrap().clear();
    kept_consumed.clear();
    // ---------------- oracle ----------------
    let mut seen = HashSet::new();
    let mut last: Vec<Option<usize>> = vec![None; producers.len()];
    for (kind, v, _c, _r) in events.iter() {
        if *kind == PEEK || *kind == EMPTY {
            continue;
        }
        if let Some(id) = v {
            if !seen.insert(*id) {
                out.fail("entry-consumed-twice", format!("{id:?} by {}", opname(*kind)));
            }
            if *kind != REMOVE {
                if let Some(l) = last[id.0] {
                    if id.1 <= l {
                        out.fail("pop-order", format!("{id:?} popped after {l} of the same producer"));
                    }
                }
                last[id.0] = Some(id.1);
            }
        }
    }
    let total: usize = producers.iter().map(|p| p.1).sum();
    if seen.len() != total {
        out.fail("entry-lost", format!("consumed {} of {total}", seen.len()));
    }
    // real-time order of pops across producers + empty answers + is_head
    let pushed = pushed.lock().unwrap().clone();
    let pm: HashMap<(usize, usize), (u64, u64)> = pushed.iter().map(|(id, c, r, _)| (*id, (*c, *r))).collect();
    let consumed_ret: HashMap<(usize, usize), u64> = events.iter().filter(|e| e.0 != PEEK && e.0 != EMPTY).filter_map(|(_, v, _c, r)| v.map(|id| (id, *r))).collect();
    let consumed_call: HashMap<(usize, usize), u64> = events.iter().filter(|e| e.0 != PEEK && e.0 != EMPTY).filter_map(|(_, v, c, _r)| v.map(|id| (id, *c))).collect();
    let pops: Vec<(usize, usize)> = events.iter().filter(|e| e.0 == POP || e.0 == POP_IF).filter_map(|e| e.1).collect();
    for (i, a) in pops.iter().enumerate() {
        for b in pops.iter().skip(i + 1) {
            if let (Some((ac, _)), Some((_, br))) = (pm.get(a), pm.get(b)) {
                if br < ac {
                    out.fail("real-time-order", format!("{b:?} was completely pushed before {a:?} began but was popped later"));
                }
            }
        }
    }
    // pop_if answering "nothing": illegal when an entry was completely pushed before the call
    // and not consumed before it, unless some entry that may have been at the head is one the
    // predicate rejects (half-finished pushes of other producers must be waited for, they
    // must not hide the completed entries behind them)
    for (ei, (kind, v, c, r)) in events.iter().enumerate() {
        if *kind != POP_IF || v.is_some() {
            continue;
        }
        let lim = pop_if_lims.get(&ei).copied().unwrap_or(0);
        let gone = |id: &(usize, usize)| consumed_ret.get(id).map(|t| t < c).unwrap_or(false) || consumed_call.get(id).map(|t| t < c).unwrap_or(false);
        let present = pushed.iter().any(|(id, _pc, pr, _)| pr < c && !gone(id));
        let maybe_rejected = pushed.iter().any(|(id, pc, _pr, _)| pc < r && !gone(id) && id.1 % 3 == lim);
        if present && !maybe_rejected {
            out.fail("empty-but-not-empty:pop_if", format!("pop_if (rejecting residue {lim}) returned nothing"));
            break;
        }
    }
    for (kind, v, c, _r) in events.iter() {
        let empty = match kind {
            &POP | &PEEK => v.is_none(),
            &EMPTY => v.is_none(),
            _ => false,
        };
        if empty {
            // illegal iff some entry was completely pushed before the call and not consumed before it
            for (id, _pc, pr, _) in pushed.iter() {
                let gone = consumed_ret.get(id).map(|t| t < c).unwrap_or(false) || consumed_call.get(id).map(|t| t < c).unwrap_or(false);
                if pr < c && !gone {
                    out.fail(&format!("empty-but-not-empty:{}", opname(*kind)), format!("{id:?} was in the list"));
                    break;
                }
            }
        }
    }
    for (id, c, r, is_head) in pushed.iter() {
        let mut certainly_empty = true;
        let mut certainly_nonempty = false;
        for (id2, c2, r2, _) in pushed.iter() {
            if id2 == id {
                continue;
            }
            let consumed_before_call = consumed_ret.get(id2).map(|t| t < c).unwrap_or(false);
            let started_after_ret = c2 > r;
            if !(consumed_before_call || started_after_ret) {
                certainly_empty = false;
            }
            let consumed_after_ret = consumed_call.get(id2).map(|t| t > r).unwrap_or(true);
            if r2 < c && consumed_after_ret {
                certainly_nonempty = true;
            }
        }
        if certainly_empty && !*is_head {
            out.fail("is_head-false-on-empty-list", format!("{id:?}"));
        }
        if certainly_nonempty && *is_head {
            out.fail("is_head-true-on-non-empty-list", format!("{id:?}"));
        }
    }
    let removes: Vec<&(u8, Option<(usize, usize)>, u64, u64)> = events.iter().filter(|e| e.0 == REMOVE).collect();
    let overlap = removes.iter().any(|e| pushed.iter().any(|(_, c, r, _)| *c < e.3 && e.2 < *r));
    let pre = sched::preempts() > 0;
    out.flag_if(!removes.is_empty(), "remove_used");
    out.flag_if(removes.iter().any(|e| e.1.is_some()), "remove_took_entry");
    out.flag_if(removed_consumed > 0, "remove_of_consumed_entry");
    out.flag_if(overlap, "remove_overlaps_push");
    out.flag_if(pre, "preempted");
    out.flag_if(producers.len() >= 2, "several_producers");
    out.nontrivial = pre && overlap;
    out
}

// ---------------------------------------------------------------------------------------
// generators
// ---------------------------------------------------------------------------------------
pub fn strategy_fifo(g: &GenCfg) -> BoxedStrategy<Case> {
    let g2 = g.clone();
    prop_oneof![2 => Just(0i64), 1 => Just(1i64)]
        .prop_flat_map(move |kind| {
            let np = if kind == 0 { 1..=3usize } else { 1..=1usize };
            let prod = proptest::collection::vec(prop_oneof![8 => Just(Op(PUSH, 0, 0)), 1 => Just(Op(YIELD, 0, 0))], 0..=40);
            let cop = prop_oneof![5 => Just(Op(POP, 0, 0)), 2 => Just(Op(BULK, 0, 0)), 1 => Just(Op(PEEK, 0, 0)), 1 => Just(Op(LEN, 0, 0)), 1 => Just(Op(EMPTY, 0, 0)), 1 => Just(Op(YIELD, 0, 0))];
            // start close to a block boundary most of the time
            let block = if kind == 0 { 64i64 } else { 32i64 };
            let offset = prop_oneof![3 => (0i64..3).prop_flat_map(move |b| (b * block + block - 12)..(b * block + block)), 1 => 0i64..130];
            (Just(kind), proptest::collection::vec(prod, np), proptest::collection::vec(cop, 0..=50), offset, prop_oneof![2 => Just(0i64), 1 => 1i64..40], gen::schedule(&g2, false))
        })
        .prop_map(|(kind, prods, cons, offset, left, sched)| {
            let mut actors: Vec<Actor> = prods.into_iter().map(|ops| Actor { ctx: TH, role: 0, ops }).collect();
            actors.push(Actor { ctx: TH, role: 1, ops: cons });
            Case { fam: "q_mpsc".into(), workers: 1, pool: 1, feat: 0, cfg: vec![kind, offset, left], actors, sched, weak: 0 }
        })
        .boxed()
}

/// cases built to reach the ABA window of the work-stealing queue: a stealer reads the head
/// (block B, slot i) and is then held back while the owner consumes B (freed, LIFO allocator),
/// fills the next block, gets B's address again for the block after it and brings the head
/// back to (B, i). needs ~100 owner operations while one stealer sits between two instructions
fn strategy_spmc_aba() -> BoxedStrategy<Case> {
    use crate::sched::Seg;
    // start offset o, then `a` pushes with o + a < 32 (head and tail in the same block B when
    // the stealer looks), c more pushes with 64 - a <= c < 64, then exactly 64 pops: the head
    // comes back to (address of B, slot o) with fewer values in the re-used block than the
    // stealer's stale push index says
    (0i64..24, 1usize..8, 0usize..14, 1u16..7, 0u16..40, 400u16..2400, 0usize..2, prop_oneof![3 => Just(0i64), 1 => Just(1i64)])
        .prop_map(|(offset, a0, cslack, r1, y, r2, extra, api)| {
            let a = a0.min(31 - offset as usize).max(1);
            let c = (63 - cslack).max(64 - a);
            let mut owner = vec![Op(PUSH, 0, 0); a + c];
            owner.extend(vec![Op(POP, 0, 0); 64]);
            owner.extend(vec![Op(PUSH, 0, 0); 6]);
            let mut actors = vec![Actor { ctx: TH, role: 0, ops: owner }];
            actors.push(Actor { ctx: TH, role: 1, ops: vec![Op(if api == 0 { STEAL } else { BULK }, 0, 0), Op(if api == 0 { STEAL } else { BULK }, 0, 0)] });
            for _ in 0..extra {
                actors.push(Actor { ctx: TH, role: 1, ops: vec![Op(YIELD, 0, 0), Op(YIELD, 0, 0), Op(if api == 0 { STEAL } else { POP }, 0, 0)] });
            }
            // thread 0 = owner (main), 1 = the stealer. the owner gets through the offset phase
            // and some of its first pushes, the stealer runs for a few points (past its loads of
            // head / tail index / tail block), then the owner runs for long
            let sched = vec![
                Seg { run: (offset as u16) * 5 + 2 + y.min((a as u16) * 3 + 6), pick: 0, stall_ms: 0 },
                Seg { run: r1, pick: 128, stall_ms: 0 },
                Seg { run: r2, pick: 0, stall_ms: 0 },
            ];
            Case { fam: "q_spmc".into(), workers: 1, pool: 1, feat: 0, cfg: vec![api, offset], actors, sched, weak: 0 }
        })
        .boxed()
}

/// the same ABA scenario with the schedule tied to the phases of the owner's program by
/// SYNC operations instead of guessed point counts: head at slot `id` and tail at slot `p` of
/// block B when the stealer has done its three loads; then the owner fills B, consumes it
/// (B is freed), fills the next block (the block after it gets B's address from the LIFO
/// allocator), consumes that one, pushes `q - 0` values into the new B and pops `id` of them:
/// the head is (B, id) again with only q < p slots written. the stealer's stale
/// compare-and-swap succeeds and claims [id, p)
fn strategy_spmc_aba_exact() -> BoxedStrategy<Case> {
    use crate::sched::Seg;
    (0i64..24, 2usize..12, 0usize..10, 1u16..9, 0i64..2, 0u8..3)
        .prop_map(|(id, a0, q0, r1, slack, variant)| {
            // variant 0: Local / Steal API, the taker is steal_into (bulk_pop); 1: raw queue,
            // bulk_pop; 2: raw queue, pop - there the head comes back to (B, id) with the slot
            // `id` itself not written yet (q = id)
            let raw = variant > 0;
            let idu = id as usize;
            let a = a0.min(31 - idu).max(2);
            let p = idu + a;
            let q = if variant == 2 { idu } else { idu + 1 + q0 % (a - 1) };
            let pop = Op(POP, raw as u32, 0);
            let mut owner = vec![Op(PUSH, 0, 0); a];
            owner.push(Op(SYNC, 0, 0));
            owner.extend(vec![Op(PUSH, 0, 0); 32 - p]);
            owner.extend(vec![pop.clone(); 32 - idu]);
            owner.extend(vec![Op(PUSH, 0, 0); 32]);
            owner.extend(vec![pop.clone(); 32]);
            owner.extend(vec![Op(PUSH, 0, 0); q]);
            owner.extend(vec![pop; idu]);
            owner.push(Op(SYNC, 0, 0));
            // released by later pushes when the taker waits for its over-claimed slots
            owner.extend(vec![Op(PUSH, 0, 0); a + 2 + slack as usize]);
            let take = match variant {
                0 => STEAL,
                1 => BULK,
                _ => POP,
            };
            let actors = vec![Actor { ctx: TH, role: 0, ops: owner }, Actor { ctx: TH, role: 1, ops: vec![Op(take, 0, 0), Op(take, 0, 0)] }];
            let sched = vec![
                Seg { run: 60_000, pick: 0, stall_ms: 0 },
                Seg { run: r1, pick: 128, stall_ms: 0 },
                Seg { run: 60_000, pick: 0, stall_ms: 0 },
                Seg { run: 60_000, pick: 128, stall_ms: 0 },
            ];
            Case { fam: "q_spmc".into(), workers: 1, pool: 1, feat: 0, cfg: vec![raw as i64, id], actors, sched, weak: 0 }
        })
        .boxed()
}

pub fn strategy_spmc(g: &GenCfg) -> BoxedStrategy<Case> {
    let plain = strategy_spmc_plain(g);
    prop_oneof![6 => plain, 1 => strategy_spmc_aba(), 1 => strategy_spmc_aba_exact()].boxed()
}

fn strategy_spmc_plain(g: &GenCfg) -> BoxedStrategy<Case> {
    let g2 = g.clone();
    let owner = proptest::collection::vec(prop_oneof![3 => Just(Op(PUSH, 0, 0)), 1 => Just(Op(POP, 0, 0))], 0..=100);
    let stealer = proptest::collection::vec(prop_oneof![4 => Just(Op(STEAL, 0, 0)), 2 => Just(Op(BULK, 0, 0)), 1 => Just(Op(EMPTY, 0, 0)), 1 => Just(Op(YIELD, 0, 0))], 1..=14);
    let offset = prop_oneof![3 => (0i64..2).prop_flat_map(|b| (b * 32 + 20)..(b * 32 + 32)), 1 => 0i64..70];
    (prop_oneof![3 => Just(0i64), 1 => Just(1i64)], owner, proptest::collection::vec(stealer, 1..=3), offset, gen::schedule(&g2, false))
        .prop_map(|(api, owner, stealers, offset, sched)| {
            let mut actors = vec![Actor { ctx: TH, role: 0, ops: owner }];
            for ops in stealers {
                actors.push(Actor { ctx: TH, role: 1, ops });
            }
            Case { fam: "q_spmc".into(), workers: 1, pool: 1, feat: 0, cfg: vec![api, offset], actors, sched, weak: 0 }
        })
        .boxed()
}

pub fn strategy_list(g: &GenCfg) -> BoxedStrategy<Case> {
    let g2 = g.clone();
    let prod = (0usize..=12).prop_map(|n| vec![Op(PUSH, 0, 0); n]);
    let cop = prop_oneof![
        4 => Just(Op(POP, 0, 0)),
        2 => (0u32..4).prop_map(|l| Op(POP_IF, l, 0)),
        1 => Just(Op(PEEK, 0, 0)),
        4 => (any::<u16>(), prop_oneof![3 => Just(0u32), 1 => Just(1u32)]).prop_map(|(k, c)| Op(REMOVE, k as u32, c)),
        1 => Just(Op(EMPTY, 0, 0)),
        1 => Just(Op(YIELD, 0, 0)),
    ];
    (proptest::collection::vec(prod, 1..=3), proptest::collection::vec(cop, 0..=40), gen::schedule(&g2, false), prop_oneof![2 => Just(0i64), 1 => Just(1i64)])
        .prop_map(|(prods, cons, sched, timer)| {
            let mut actors: Vec<Actor> = prods.into_iter().map(|ops| Actor { ctx: TH, role: 0, ops }).collect();
            actors.push(Actor { ctx: TH, role: 1, ops: if timer == 1 { vec![] } else { cons } });
            Case { fam: "q_list".into(), workers: 1, pool: 1, feat: 0, cfg: vec![timer], actors, sched, weak: 0 }
        })
        .boxed()
}
