//! `net` (C17) and `netto` (C18) families: real kernel sockets under the deterministic scheduler
//!
//! net:   cfg[0] = transport 0 UnixStream::pair, 1 UnixListener + connect, 2 TCP loopback,
//!                 3 UdpSocket, 4 UnixDatagram pair; cfg[1] = 1: read through split() halves,
//!                 2: coroutine readers do raw non-blocking reads and block in WaitIo::wait_io
//!        actors come in pairs per connection: role 0 writer ops[0] = Op(W, total bytes, chunk),
//!        role 1 reader ops[0] = Op(R, buffer size, 0); datagrams: total = count, chunk = size
//! netto: cfg[0] = transport 0 UnixStream::pair, 2 TCP, 3 UDP; cfg[1] = 1: the reader is cancelled
//!        after cfg[2] ns (cfg[4] = k > 0: a few points after read k-1 began); cfg[3] = k > 0: a successor continues from read k on the shared socket;
//!        actor 0 = reader ops = Op(READ, timeout us (0 = none), 0)...,
//!        actor 1 = peer ops = Op(SEND_AT, delay us after the matching read began | NEVER, 0)...,
//!        further pairs = bystander connections (as in net)
use crate::case::{Actor, Case, Op, Outcome};
use crate::gen::{self, GenCfg};
use crate::sched;
use crate::util::*;
use may::io::SplitIo;
use proptest::prelude::*;
use std::io::{Read, Write};
use std::sync::atomic::{AtomicU64, Ordering};
use std::sync::{Arc, Mutex};
use std::time::Duration;

pub const W: u8 = 0;
pub const R: u8 = 1;
pub const READ: u8 = 2;
pub const SEND_AT: u8 = 3;
pub const NEVER: u32 = u32::MAX;
/// second op of a stream writer: Op(REFUSED, k, 0) = k connects to a closed port (they fail and
/// drop a half set up connection: socket + selector registration) before its own connection
pub const REFUSED: u8 = 4;
/// scheduler key on which the canceller waits for the begin of a read
const CANCEL_KEY: usize = 0x4e43;

pub fn opname(op: u8) -> &'static str {
    match op {
        W => "write",
        R => "read",
        READ => "read-with-timeout",
        SEND_AT => "send",
        REFUSED => "refused-connect",
        _ => "?",
    }
}

fn pattern(conn: usize, i: usize) -> u8 {
    ((i * 31 + i / 251 + conn * 17) & 0xff) as u8
}

enum Stream {
    Unix(may::os::unix::net::UnixStream),
    Tcp(may::net::TcpStream),
}
impl Read for Stream {
    fn read(&mut self, b: &mut [u8]) -> std::io::Result<usize> {
        match self {
            Stream::Unix(s) => s.read(b),
            Stream::Tcp(s) => s.read(b),
        }
    }
}
impl Write for Stream {
    fn write(&mut self, b: &[u8]) -> std::io::Result<usize> {
        let r = match self {
            Stream::Unix(s) => s.write(b),
            Stream::Tcp(s) => s.write(b),
        };
        // the kernel has made the peer readable: an idle worker would return from epoll now
        sched::kick_idle();
        r
    }
    fn flush(&mut self) -> std::io::Result<()> {
        Ok(())
    }
}
impl Stream {
    fn set_read_timeout(&self, d: Option<Duration>) {
        match self {
            Stream::Unix(s) => s.set_read_timeout(d).unwrap(),
            Stream::Tcp(s) => s.set_read_timeout(d).unwrap(),
        }
    }
}

fn unix_path(conn: usize) -> String {
    format!("/tmp/mv-{}-{conn}.sock", std::process::id())
}

/// both ends of connection `conn`; for the listener transports the two ends are produced
/// lazily inside the actors (accept / connect are part of what is tested)
enum End2 {
    Ready(Stream),
    Accept(Box<dyn FnOnce() -> Stream + Send>),
    Connect(Box<dyn FnOnce() -> Stream + Send>),
}
impl End2 {
    fn get(self) -> Stream {
        let s = match self {
            End2::Ready(s) => s,
            End2::Accept(f) => f(),
            End2::Connect(f) => f(),
        };
        sched::kick_idle();
        s
    }
}

fn make_conn(transport: i64, conn: usize) -> (End2, End2) {
    match transport {
        0 => {
            let (a, b) = may::os::unix::net::UnixStream::pair().unwrap();
            (End2::Ready(Stream::Unix(a)), End2::Ready(Stream::Unix(b)))
        }
        1 => {
            let path = unix_path(conn);
            let _ = std::fs::remove_file(&path);
            let l = may::os::unix::net::UnixListener::bind(&path).unwrap();
            let p2 = path.clone();
            (
                End2::Connect(Box::new(move || Stream::Unix(may::os::unix::net::UnixStream::connect(&p2).unwrap()))),
                End2::Accept(Box::new(move || {
                    let (s, _) = l.accept().unwrap();
                    let _ = std::fs::remove_file(&path);
                    Stream::Unix(s)
                })),
            )
        }
        _ => {
            let l = may::net::TcpListener::bind("127.0.0.1:0").unwrap();
            let addr = l.local_addr().unwrap();
            (
                End2::Connect(Box::new(move || Stream::Tcp(may::net::TcpStream::connect(addr).unwrap()))),
                End2::Accept(Box::new(move || Stream::Tcp(l.accept().unwrap().0))),
            )
        }
    }
}

struct ConnResult {
    got: Vec<u8>,
    zero_reads: usize,
    blocked_write: bool,
}

/// one stream connection: the writer sends `total` bytes in chunks, the reader reads until EOF
fn stream_pair(case: &Case, conn: usize, wa: &Actor, ra: &Actor, states: &States, wi: usize, ri: usize, mode: i64) -> (H<bool>, H<ConnResult>) {
    let transport = case.cfg(0);
    let echo = mode == 1;
    // wait_io is a coroutine only API
    let wait_io = mode == 2 && ra.ctx == CO;
    let total = wa.ops[0].1 as usize;
    let chunk = (wa.ops[0].2 as usize).max(1);
    let bufsz = (ra.ops[0].1 as usize).max(1);
    let refused = wa.ops.get(1).filter(|o| o.0 == REFUSED).map(|o| o.1).unwrap_or(0);
    let (we, re) = make_conn(transport, conn);
    let (st1, st2) = (states.clone(), states.clone());
    let w = spawn(wa.ctx, "writer", move || {
        let _dg = DoneGuard(&st1, wi);
        st1.enter(wi, 0, W);
        for _ in 0..refused {
            // port 1 of the loopback: privileged, nobody listens there
            if may::net::TcpStream::connect("127.0.0.1:1").is_ok() {
                panic!("harness: somebody listens on 127.0.0.1:1");
            }
        }
        let mut s = we.get();
        let data: Vec<u8> = (0..total).map(|i| pattern(conn, i)).collect();
        let mut blocked = false;
        for c in data.chunks(chunk) {
            let sw = sched::switches();
            if s.write_all(c).is_err() {
                break;
            }
            if sched::switches() - sw > 2 {
                blocked = true;
            }
        }
        drop(s);
        sched::kick_idle();
        blocked
    });
    let r = spawn(ra.ctx, "reader", move || {
        let _dg = DoneGuard(&st2, ri);
        st2.enter(ri, 0, R);
        let mut got = vec![];
        let mut buf = vec![0u8; bufsz];
        let mut zero_reads = 0;
        let s = re.get();
        if echo {
            // full duplex through the split halves: everything read is written back by a
            // second actor... kept simple: this reader owns the read half only
            match s {
                Stream::Unix(u) => {
                    let (mut rd, wr) = u.split().unwrap();
                    loop {
                        match rd.read(&mut buf) {
                            Ok(0) => {
                                zero_reads += 1;
                                break;
                            }
                            Ok(k) => got.extend_from_slice(&buf[..k]),
                            Err(_) => break,
                        }
                    }
                    drop(wr);
                }
                Stream::Tcp(t) => {
                    let (mut rd, wr) = t.split().unwrap();
                    loop {
                        match rd.read(&mut buf) {
                            Ok(0) => {
                                zero_reads += 1;
                                break;
                            }
                            Ok(k) => got.extend_from_slice(&buf[..k]),
                            Err(_) => break,
                        }
                    }
                    drop(wr);
                }
            }
        } else if wait_io {
            // the reader does its own non-blocking reads and only blocks through WaitIo::wait_io
            use may::io::WaitIo;
            use std::os::fd::AsRawFd;
            let fd = match &s {
                Stream::Unix(u) => u.as_raw_fd(),
                Stream::Tcp(t) => t.as_raw_fd(),
            };
            loop {
                let k = unsafe { libc::recv(fd, buf.as_mut_ptr() as *mut libc::c_void, buf.len(), libc::MSG_DONTWAIT) };
                if k > 0 {
                    got.extend_from_slice(&buf[..k as usize]);
                } else if k == 0 {
                    zero_reads += 1;
                    break;
                } else {
                    let e = std::io::Error::last_os_error();
                    match e.kind() {
                        std::io::ErrorKind::WouldBlock => {
                            match &s {
                                Stream::Unix(u) => u.wait_io(),
                                Stream::Tcp(t) => t.wait_io(),
                            };
                        }
                        std::io::ErrorKind::Interrupted => {}
                        _ => break,
                    }
                }
            }
        } else {
            let mut s = s;
            loop {
                match s.read(&mut buf) {
                    Ok(0) => {
                        zero_reads += 1;
                        break;
                    }
                    Ok(k) => got.extend_from_slice(&buf[..k]),
                    Err(_) => break,
                }
            }
        }
        sched::kick_idle();
        ConnResult { got, zero_reads, blocked_write: false }
    });
    (w, r)
}

fn check_stream(out: &mut Outcome, conn: usize, total: usize, w: End<bool>, r: End<ConnResult>) -> bool {
    let mut blocked = false;
    match w {
        End::Ok(b) => blocked = b,
        e => out.fail("writer-ended-abnormally", format!("connection {conn}: {}", e.kind())),
    }
    match r {
        End::Ok(res) => {
            let _ = res.blocked_write;
            let want: Vec<u8> = (0..total).map(|i| pattern(conn, i)).collect();
            if res.got.len() != total {
                out.fail(if res.got.len() < total { "byte-stream-truncated" } else { "byte-stream-too-long" }, format!("connection {conn}: sent {total}, received {} (read returned 0 {} times)", res.got.len(), res.zero_reads));
            } else if res.got != want {
                let pos = res.got.iter().zip(want.iter()).position(|(a, b)| a != b).unwrap_or(0);
                out.fail("byte-stream-corrupted", format!("connection {conn}: first difference at offset {pos}"));
            }
        }
        e => out.fail("reader-ended-abnormally", format!("connection {conn}: {}", e.kind())),
    }
    blocked
}

pub fn run_net(case: &Case) -> Outcome {
    let mut out = Outcome::new();
    let transport = case.cfg(0);
    if transport == 2 || transport == 3 {
        sched::set_deadlock_grace(2);
    }
    let desc: Vec<String> = case.actors.iter().map(|a| format!("{}/{}", if a.role == 0 { "writer" } else { "reader" }, ctx_name(a.ctx))).collect();
    let states = States::install(desc, opname);
    let pairs: Vec<(usize, usize)> = (0..case.actors.len() / 2).map(|c| (2 * c, 2 * c + 1)).collect();
    let mut any_blocked = false;
    if transport <= 2 {
        let mut hs = vec![];
        for (conn, (wi, ri)) in pairs.iter().enumerate() {
            let (w, r) = stream_pair(case, conn, &case.actors[*wi], &case.actors[*ri], &states, *wi, *ri, case.cfg(1));
            hs.push((conn, case.actors[*wi].ops[0].1 as usize, w, r));
        }
        for (conn, total, w, r) in hs {
            let we = w.join();
            let re = r.join();
            any_blocked |= check_stream(&mut out, conn, total, we, re);
        }
    } else {
        // datagrams: every receive returns exactly one whole datagram
        let mut hs = vec![];
        for (conn, (wi, ri)) in pairs.iter().enumerate() {
            let count = (case.actors[*wi].ops[0].1 as usize).min(24);
            let size = (case.actors[*wi].ops[0].2 as usize).clamp(1, 4000);
            let (wctx, rctx) = (case.actors[*wi].ctx, case.actors[*ri].ctx);
            let (st1, st2) = (states.clone(), states.clone());
            let (wi, ri) = (*wi, *ri);
            if transport == 3 {
                let a = may::net::UdpSocket::bind("127.0.0.1:0").unwrap();
                let b = may::net::UdpSocket::bind("127.0.0.1:0").unwrap();
                let baddr = b.local_addr().unwrap();
                let w = spawn(wctx, "sender", move || {
                    let _dg = DoneGuard(&st1, wi);
                    st1.enter(wi, 0, W);
                    for k in 0..count {
                        let d: Vec<u8> = (0..size + k).map(|i| pattern(conn * 100 + k, i)).collect();
                        let _ = a.send_to(&d, baddr);
                        sched::kick_idle();
                    }
                });
                let r = spawn(rctx, "receiver", move || {
                    let _dg = DoneGuard(&st2, ri);
                    st2.enter(ri, 0, R);
                    let mut got = vec![];
                    let mut buf = vec![0u8; 8192];
                    for _ in 0..count {
                        match b.recv_from(&mut buf) {
                            Ok((k, _)) => got.push(buf[..k].to_vec()),
                            Err(_) => break,
                        }
                    }
                    got
                });
                hs.push((conn, count, size, w, r));
            } else {
                let (a, b) = may::os::unix::net::UnixDatagram::pair().unwrap();
                let w = spawn(wctx, "sender", move || {
                    let _dg = DoneGuard(&st1, wi);
                    st1.enter(wi, 0, W);
                    for k in 0..count {
                        let d: Vec<u8> = (0..size + k).map(|i| pattern(conn * 100 + k, i)).collect();
                        let _ = a.send(&d);
                        sched::kick_idle();
                    }
                });
                let r = spawn(rctx, "receiver", move || {
                    let _dg = DoneGuard(&st2, ri);
                    st2.enter(ri, 0, R);
                    let mut got = vec![];
                    let mut buf = vec![0u8; 8192];
                    for _ in 0..count {
                        match b.recv(&mut buf) {
                            Ok(k) => got.push(buf[..k].to_vec()),
                            Err(_) => break,
                        }
                    }
                    got
                });
                hs.push((conn, count, size, w, r));
            }
        }
        for (conn, count, size, w, r) in hs {
            if !w.join().is_ok() {
                out.fail("sender-ended-abnormally", format!("connection {conn}"));
            }
            match r.join() {
                End::Ok(got) => {
                    if got.len() != count {
                        out.fail("datagram-count", format!("connection {conn}: sent {count}, received {}", got.len()));
                    }
                    for (k, d) in got.iter().enumerate() {
                        let want: Vec<u8> = (0..size + k).map(|i| pattern(conn * 100 + k, i)).collect();
                        if *d != want {
                            // a whole other datagram (re-ordering) is only an error for unix datagrams
                            let other = (0..count).any(|k2| *d == (0..size + k2).map(|i| pattern(conn * 100 + k2, i)).collect::<Vec<u8>>());
                            if !other {
                                out.fail("datagram-boundary-or-content", format!("connection {conn}: datagram {k} has {} bytes, sent {}", d.len(), want.len()));
                            } else if transport == 4 {
                                out.fail("unix-datagram-order", format!("connection {conn}: datagram {k}"));
                            }
                        }
                    }
                }
                e => out.fail("receiver-ended-abnormally", format!("connection {conn}: {}", e.kind())),
            }
        }
    }
    crate::child::settle();
    let pre = sched::preempts() > 0;
    out.flag(match transport {
        0 => "unix_pair",
        1 => "unix_listener",
        2 => "tcp",
        3 => "udp",
        _ => "unix_datagram",
    });
    out.flag_if(any_blocked, "writer_blocked");
    out.flag_if(pre, "preempted");
    out.flag_if(case.cfg(1) == 1, "split_halves");
    out.flag_if(case.cfg(1) == 2 && transport <= 2 && case.actors.iter().any(|a| a.role == 1 && a.ctx == CO), "wait_io_reader");
    out.flag_if(pairs.len() >= 2, "several_connections");
    out.flag_if(case.actors.iter().any(|a| a.ctx == TH), "thread_endpoint");
    out.flag_if(sched::preempted_in("io/sys/unix"), "preempted_in_io_sys");
    out.nontrivial = pre && (any_blocked || transport >= 3 || sched::preempted_in("io/sys/unix"));
    out
}

// ---------------------------------------------------------------------------------------
// netto: time-outs and cancel of blocked socket I/O
// ---------------------------------------------------------------------------------------
pub fn run_netto(case: &Case) -> Outcome {
    let mut out = Outcome::new();
    let transport = case.cfg(0);
    let cancel_reader = case.cfg(1) == 1;
    if transport == 2 || transport == 3 {
        sched::set_deadlock_grace(2);
    }
    let desc: Vec<String> = case
        .actors
        .iter()
        .enumerate()
        .map(|(i, a)| format!("{}/{}", if i == 0 { "reader" } else if i == 1 { "peer" } else if a.role == 0 { "bystander-writer" } else { "bystander-reader" }, ctx_name(if i == 0 && cancel_reader { CO } else { a.ctx })))
        .collect();
    let mut desc = desc;
    desc.push(format!("successor/{}", ctx_name(case.actors[0].ctx)));
    let states = States::install(desc, opname);
    let reads = case.actors[0].ops.clone();
    let sends = case.actors[1].ops.clone();
    let n = reads.len();
    // virtual time at which read i began (published for the peer), and when the peer's write i was done
    let began: Arc<Vec<AtomicU64>> = Arc::new((0..n).map(|_| AtomicU64::new(0)).collect());
    let wrote: Arc<Vec<AtomicU64>> = Arc::new((0..n).map(|_| AtomicU64::new(0)).collect());
    #[allow(clippy::type_complexity)]
    let results: Arc<Mutex<Vec<Option<(i64, usize, u64, u64, u64)>>>> = Arc::new(Mutex::new(vec![None; n])); // (kind, bytes, vc, vr, tick)
    let rctx = if cancel_reader { CO } else { case.actors[0].ctx };
    let pctx = case.actors[1].ctx;
    // the connection under test
    enum Sock {
        S(Stream, Stream),
        U(may::net::UdpSocket, may::net::UdpSocket),
    }
    let sock = match transport {
        3 => {
            let a = may::net::UdpSocket::bind("127.0.0.1:0").unwrap();
            let b = may::net::UdpSocket::bind("127.0.0.1:0").unwrap();
            b.connect(a.local_addr().unwrap()).unwrap();
            Sock::U(a, b)
        }
        t => {
            let (a, b) = make_conn(if t == 2 { 2 } else { 0 }, 99);
            // connect first, accept second (both ends are needed before the actors start)
            let (x, y) = match (a, b) {
                (End2::Ready(x), End2::Ready(y)) => (x, y),
                (c, a) => {
                    let hc = sched::vspawn("connector", move || c.get());
                    let ya = a.get();
                    (hc.join().ok().unwrap(), ya)
                }
            };
            Sock::S(y, x)
        }
    };
    let (rs, ps) = match sock {
        Sock::S(a, b) => ((Some(a), None), (Some(b), None)),
        Sock::U(a, b) => ((None, Some(a)), (None, Some(b))),
    };
    // with a successor (cfg[3] = k > 0, at least two reads) the socket is shared: the first reader
    // does reads ..k, a second reader continues on the same socket once the first has ended
    // (normally or by cancel); otherwise the reader owns the socket and its end closes it
    let split = if n >= 2 { (case.cfg(3).max(0) as usize).min(n - 1) } else { 0 };
    type Socks = (Option<Stream>, Option<may::net::UdpSocket>);
    let shared: Arc<Mutex<Option<Socks>>> = Arc::new(Mutex::new(Some(rs)));
    // (when the reader may get cancelled the peer waits for the end of the stream: there the
    // reader's end closes the socket as before)
    let hand_back = !cancel_reader;
    // the witness: a coroutine that the reader wakes (semaphore) after every read that
    // returned - whatever resumed the reader (readiness, its io time-out, a cancel re-check),
    // a coroutine it makes ready has to run promptly, not at the next selector wake-up
    let wsem = Arc::new(may::sync::Semphore::new(0));
    let wdone = Arc::new(std::sync::atomic::AtomicBool::new(false));
    let wposts: Arc<Mutex<Vec<(u64, u64)>>> = Arc::new(Mutex::new(vec![]));
    let wwakes: Arc<Mutex<Vec<(u64, u64)>>> = Arc::new(Mutex::new(vec![]));
    let witness = {
        let (wsem, wdone, wwakes) = (wsem.clone(), wdone.clone(), wwakes.clone());
        spawn(CO, "witness", move || loop {
            wsem.wait();
            if wdone.load(Ordering::SeqCst) {
                break;
            }
            let t = sched::now_tick();
            wwakes.lock().unwrap().push(t);
        })
    };
    let do_reads = {
        let (began, results, states, shared, reads) = (began.clone(), results.clone(), states.clone(), shared.clone(), reads.clone());
        let (wsem, wposts) = (wsem.clone(), wposts.clone());
        move |actor: usize, from: usize, to: usize, own: bool| {
            let mut owned: Option<Socks> = if own { shared.lock().unwrap_or_else(|e| e.into_inner()).take() } else { None };
            let mut guard = if own { None } else { Some(shared.lock().unwrap_or_else(|e| e.into_inner())) };
            let socks: &mut Socks = match (&mut owned, &mut guard) {
                (Some(o), _) => o,
                (_, Some(g)) => g.as_mut().unwrap(),
                _ => unreachable!(),
            };
            let (s, u) = (&mut socks.0, &socks.1);
            let mut buf = [0u8; 64];
            for (i, op) in reads.iter().enumerate().take(to).skip(from) {
                states.enter(actor, i, READ);
                let d = if op.1 == 0 { None } else { Some(Duration::from_micros(op.1 as u64)) };
                if let Some(s) = s.as_ref() {
                    s.set_read_timeout(d);
                }
                if let Some(u) = u.as_ref() {
                    u.set_read_timeout(d).unwrap();
                }
                let (vc, t0) = sched::now_tick();
                began[i].store(vc, Ordering::SeqCst);
                sched::notify(CANCEL_KEY);
                let r = match (s.as_mut(), u.as_ref()) {
                    (Some(s), _) => s.read(&mut buf),
                    (_, Some(u)) => u.recv_from(&mut buf).map(|x| x.0),
                    _ => unreachable!(),
                };
                let (vr, t1) = sched::now_tick();
                let (kind, bytes) = match r {
                    Ok(k) => (0, k),
                    Err(e) if matches!(e.kind(), std::io::ErrorKind::TimedOut | std::io::ErrorKind::WouldBlock) => (1, 0),
                    Err(_) => (2, 0),
                };
                results.lock().unwrap()[i] = Some((kind, bytes, vc, vr, t1 - t0));
                wposts.lock().unwrap().push(sched::now_tick());
                wsem.post();
                states.leave(actor, i);
            }
            // a reader that ends normally hands its socket back for the final count of what
            // is left in it (a cancelled one unwinds past this and closes it)
            drop(guard);
            if let Some(o) = owned.take() {
                if hand_back {
                    *shared.lock().unwrap_or_else(|e| e.into_inner()) = Some(o);
                }
            }
        }
    };
    let (st2, dr) = (states.clone(), do_reads.clone());
    let first_to = if split > 0 { split } else { n };
    let reader = spawn(rctx, "reader", move || {
        let _dg = DoneGuard(&st2, 0);
        dr(0, 0, first_to, split == 0);
    });
    let reader_co = reader.coroutine().cloned();
    let (began3, wrote3, st3) = (began.clone(), wrote.clone(), states.clone());
    let reader_done = Arc::new(std::sync::atomic::AtomicBool::new(false));
    let rd2 = reader_done.clone();
    let expect_eof = cancel_reader && split == 0;
    let peer = spawn(pctx, "peer", move || {
        let _dg = DoneGuard(&st3, 1);
        let (mut s, u) = ps;
        let mut eof_seen = false;
        for (i, op) in sends.iter().enumerate() {
            st3.enter(1, i, SEND_AT);
            if op.1 == NEVER {
                continue;
            }
            // after read i has begun ...
            if !poll_until(|| began3[i].load(Ordering::SeqCst) != 0, 20_000_000_000) {
                break;
            }
            let at = began3[i].load(Ordering::SeqCst) + op.1 as u64 * 1000;
            let now = sched::now_ns();
            if at > now {
                sleep_ns(at - now);
            }
            let ok = match (s.as_mut(), u.as_ref()) {
                (Some(s), _) => s.write_all(b"x").is_ok(),
                (_, Some(u)) => {
                    let r = u.send(b"x").is_ok();
                    sched::kick_idle();
                    r
                }
                _ => false,
            };
            if ok {
                wrote3[i].store(sched::now_ns(), Ordering::SeqCst);
            }
        }
        // when the reader was cancelled the peer must see the end of the stream
        if let Some(s) = s.as_mut() {
            if expect_eof {
                s.set_read_timeout(Some(Duration::from_secs(60)));
                let mut b = [0u8; 8];
                // end of stream, or a reset if our byte was still unread when the other end was closed
                eof_seen = match s.read(&mut b) {
                    Ok(0) => true,
                    Ok(_) => false,
                    Err(e) => !matches!(e.kind(), std::io::ErrorKind::TimedOut | std::io::ErrorKind::WouldBlock),
                };
            }
        }
        // closing our end is an event for the reader (end of stream): only after it is done
        poll_until(|| rd2.load(Ordering::SeqCst), 30_000_000_000);
        drop(s);
        drop(u);
        sched::kick_idle();
        eof_seen
    });
    // bystander connections
    let mut bys = vec![];
    let mut conn = 0;
    let mut i = 2;
    while i + 1 < case.actors.len() {
        // (odd chunk size: the bystander connects through a listener inside its actors, so
        // sockets are also created while the case runs)
        let btr = (case.actors[i].ops[0].2 % 2) as i64;
        let (w, r) = stream_pair(&Case { cfg: vec![btr, 0], ..case.clone() }, conn, &case.actors[i], &case.actors[i + 1], &states, i, i + 1, 0);
        bys.push((conn, case.actors[i].ops[0].1 as usize, w, r));
        conn += 1;
        i += 2;
    }
    if cancel_reader {
        if case.cfg(4) > 0 {
            // aimed cancel: a few schedule points after read cfg[4]-1 has begun, i.e. while it
            // goes through try-io / yield / subscribe / register-for-cancel
            let k = (case.cfg(4) as usize - 1).min(first_to - 1);
            while began[k].load(Ordering::SeqCst) == 0 {
                if !sched::block(CANCEL_KEY, Some(sched::now_ns() + 5_000_000_000), false) && began[k].load(Ordering::SeqCst) == 0 {
                    break;
                }
            }
            sleep_ns((case.cfg(2).max(0) as u64) % 6_000);
        } else {
            sleep_ns(case.cfg(2).max(0) as u64);
        }
        if let Some(c) = reader_co {
            unsafe { c.cancel() };
            sched::kick_idle();
        }
    }
    let rend = reader.join();
    let mut send = End::Ok(());
    if split > 0 {
        // the successor continues after the last read that was begun
        let next = (0..n).rev().find(|&i| began[i].load(Ordering::SeqCst) != 0).map_or(0, |i| i + 1);
        let (st4, dr) = (states.clone(), do_reads.clone());
        let succ = case.actors.len();
        let h = spawn(case.actors[0].ctx, "successor", move || {
            let _dg = DoneGuard(&st4, succ);
            dr(succ, next, n, false);
        });
        send = h.join();
    }
    drop(do_reads);
    reader_done.store(true, Ordering::SeqCst);
    sched::kick_idle();
    // conservation: everything the peer has written is either in the reads' results or still
    // in the socket (a read that consumes bytes and then reports a time-out loses them)
    let mut leftover: Option<usize> = None;
    if !matches!(rend, End::Cancel) && matches!(send, End::Ok(())) {
        // (reader_done is set: the peer is on its way out, its writes are all done)
        poll_until(|| states.reached(1, usize::MAX - 1), 30_000_000_000);
        if let Some(socks) = shared.lock().unwrap_or_else(|e| e.into_inner()).as_ref() {
            use std::os::fd::AsRawFd;
            let fd = match (&socks.0, &socks.1) {
                (Some(Stream::Unix(u)), _) => u.as_raw_fd(),
                (Some(Stream::Tcp(t)), _) => t.as_raw_fd(),
                (_, Some(u)) => u.as_raw_fd(),
                _ => -1,
            };
            // loopback delivery of TCP / UDP is asynchronous: give the kernel a moment
            if transport != 0 {
                std::thread::sleep(Duration::from_millis(30));
            }
            let mut n = 0usize;
            let mut b = [0u8; 64];
            loop {
                let k = unsafe { libc::recv(fd, b.as_mut_ptr() as *mut libc::c_void, if socks.1.is_some() { 64 } else { 1 }, libc::MSG_DONTWAIT) };
                if k <= 0 {
                    break;
                }
                n += 1;
            }
            leftover = Some(n);
        }
    }
    let pend = peer.join();
    for (conn, total, w, r) in bys {
        let (we, re) = (w.join(), r.join());
        check_stream(&mut out, conn, total, we, re);
    }
    wdone.store(true, Ordering::SeqCst);
    wsem.post();
    let wend = witness.join();
    crate::child::settle();
    // ---------------- oracle ----------------
    match (&rend, cancel_reader) {
        (End::Ok(()), _) => {}
        (End::Cancel, true) => {}
        (e, _) => out.fail("reader-ended-abnormally", e.kind()),
    }
    let stalls = case.has_stall();
    if !matches!(wend, End::Ok(())) {
        out.fail("witness-ended-abnormally", wend.kind());
    }
    // the virtual clock moves in two ways: by the ticks of executed schedule points and by
    // jumps to the next deadline when no thread is runnable. time that jumped away while the
    // witness was ready means that every worker slept although a run queue was not empty
    // (the idle poll of a worker is 10 ms); stall faults are such sleeps on purpose
    if !stalls {
        let (p, w) = (wposts.lock().unwrap().clone(), wwakes.lock().unwrap().clone());
        for (i, ((tp, kp), (tw, kw))) in p.iter().zip(w.iter()).enumerate() {
            let jumped = tw.saturating_sub(*tp).saturating_sub(kw.saturating_sub(*kp));
            if jumped > 5_000_000 {
                out.fail("coroutine-made-ready-by-the-reader-not-run", format!("wake-up {i} posted at {tp} ns, the woken coroutine ran at {tw} ns, {jumped} ns of that with every thread asleep"));
            }
        }
    }
    if !matches!(send, End::Ok(())) {
        out.fail("successor-ended-abnormally", send.kind());
    }
    let res = results.lock().unwrap().clone();
    let mut stale_window = false;
    let mut near = false;
    // a read that was cut by the cancel has no result
    let unconsumed = |j: usize| res[j].map_or(true, |r| r.0 != 0);
    let returned_at = |j: usize| res[j].map_or(u64::MAX, |r| r.3);
    for (i, r) in res.iter().enumerate() {
        let (kind, bytes, vc, vr, tick) = match r {
            Some(r) => r,
            None => continue,
        };
        let d_us = case.actors[0].ops[i].1 as u64;
        let d = d_us * 1000;
        let el = vr - vc;
        let w = wrote[i].load(Ordering::SeqCst);
        // bytes written for earlier reads that timed out are still in the socket
        let earlier_pending = (0..i).any(|j| wrote[j].load(Ordering::SeqCst) != 0 && unconsumed(j));
        match kind {
            0 => {
                if *bytes == 0 {
                    // end of stream although the peer has not closed
                    out.fail("read-returned-0-before-eof", format!("read {i}"));
                } else if w == 0 && !earlier_pending && !(0..i).any(|j| wrote[j].load(Ordering::SeqCst) != 0 && wrote[j].load(Ordering::SeqCst) > returned_at(j)) {
                    out.fail("data-from-nowhere", format!("read {i}"));
                }
            }
            1 => {
                if d == 0 {
                    out.fail("timeout-error-without-timeout", format!("read {i}"));
                } else if el < d {
                    out.fail("io-timeout-early", format!("read {i}: elapsed {el} ns < {d} ns (a timer armed for an earlier operation?)"));
                }
                // data that was completely written well before the deadline must be delivered
                if !stalls && w != 0 && w + 2_000_000 + tick < vc + d {
                    out.fail("timeout-although-data-arrived-in-time", format!("read {i}: written at +{} ns, deadline +{d} ns", w - vc));
                }
            }
            _ => out.fail("io-error", format!("read {i}")),
        }
        // (lateness is not part of C18: a spurious readiness event re-arms the io timer)
        if i > 0 {
            // the previous read ended early (data or cancel) and its deadline falls into this one
            let pb = began[i - 1].load(Ordering::SeqCst);
            let prev_deadline = pb + case.actors[0].ops[i - 1].1 as u64 * 1000;
            if pb != 0 && case.actors[0].ops[i - 1].1 != 0 && res[i - 1].map_or(true, |r| r.0 == 0) && prev_deadline > *vc && prev_deadline < *vr {
                stale_window = true;
            }
        }
        if w != 0 && d != 0 && (w as i64 - (*vc + d) as i64).unsigned_abs() < 1_000_000 {
            near = true;
        }
    }
    if let Some(left) = leftover {
        let written = (0..n).filter(|&i| wrote[i].load(Ordering::SeqCst) != 0).count();
        let received: usize = res.iter().flatten().filter(|r| r.0 == 0).map(|r| r.1).sum();
        if received + left != written {
            out.fail("bytes-lost-or-invented", format!("the peer wrote {written} bytes, the reads returned {received}, {left} are left in the socket"));
        }
    }
    if expect_eof && matches!(rend, End::Cancel) && transport != 3 {
        if let End::Ok(eof) = pend {
            if !eof {
                out.fail("peer-sees-no-eof-after-cancel", "the cancelled coroutine's socket was not closed".into());
            }
        }
    }
    if !matches!(pend, End::Ok(_)) {
        out.fail("peer-ended-abnormally", pend.kind());
    }
    let pre = sched::preempts() > 0;
    out.flag(match transport {
        2 => "tcp",
        3 => "udp",
        _ => "unix_pair",
    });
    out.flag_if(stale_window, "previous_deadline_inside_next_op");
    out.flag_if(near, "data_within_1ms_of_deadline");
    let res: Vec<_> = res.iter().flatten().collect();
    out.flag_if(res.iter().any(|r| r.0 == 1), "timeout_seen");
    out.flag_if(res.iter().any(|r| r.0 == 0), "data_seen");
    out.flag_if(split > 0, "successor_on_shared_socket");
    out.flag_if(matches!(rend, End::Cancel), "reader_cancelled");
    out.flag_if(stalls, "stall_fault");
    out.flag_if(pre, "preempted");
    out.flag_if(case.actors.len() > 2, "bystanders");
    out.nontrivial = pre && (stale_window || near || matches!(rend, End::Cancel) || res.iter().any(|r| r.0 == 1) && res.iter().any(|r| r.0 == 0));
    out
}

pub fn strategy_net(g: &GenCfg) -> BoxedStrategy<Case> {
    let g2 = g.clone();
    (prop_oneof![3 => Just(0i64), 2 => Just(1i64), 2 => Just(2i64), 1 => Just(3i64), 1 => Just(4i64)], prop_oneof![3 => Just(0i64), 1 => Just(1i64), 1 => Just(2i64)])
        .prop_flat_map(move |(transport, echo)| {
            let conn = if transport <= 2 {
                // payload up to 512 KiB (several unix socket buffers), bounded number of operations
                (0u8..2, 0u8..2, prop_oneof![2 => 0u32..4_000, 2 => 4_000u32..120_000, 1 => 200_000u32..524_288], 1u32..65_536, 1u32..131_072, prop_oneof![4 => Just(0u32), 1 => 1u32..3])
                    .prop_map(|(wc, rc, total, chunk, buf, refused)| {
                        let chunk = chunk.max(total / 300 + 1);
                        let buf = buf.max(total / 300 + 1);
                        let mut wops = vec![Op(W, total, chunk)];
                        if refused > 0 {
                            wops.push(Op(REFUSED, refused, 0));
                        }
                        (Actor { ctx: wc, role: 0, ops: wops }, Actor { ctx: rc, role: 1, ops: vec![Op(R, buf, 0)] })
                    })
                    .boxed()
            } else {
                (0u8..2, 0u8..2, 1u32..20, 1u32..3000).prop_map(|(wc, rc, count, size)| (Actor { ctx: wc, role: 0, ops: vec![Op(W, count, size)] }, Actor { ctx: rc, role: 1, ops: vec![Op(R, 8192, 0)] })).boxed()
            };
            (Just((transport, echo)), proptest::collection::vec(conn, 1..=3), gen::config(&g2), gen::schedule(&g2, false))
        })
        .prop_map(|((transport, echo), conns, (workers, pool, feat), sched)| {
            let mut actors = vec![];
            for (w, r) in conns {
                actors.push(w);
                actors.push(r);
            }
            Case { fam: "net".into(), workers, pool, feat, cfg: vec![transport, if transport <= 2 { echo } else { 0 }], actors, sched, weak: 0 }
        })
        .boxed()
}

pub fn strategy_netto(g: &GenCfg) -> BoxedStrategy<Case> {
    let g2 = g.clone();
    let d = || prop_oneof![3 => (1u32..20).prop_map(|ms| ms * 1000), 2 => 100u32..20_000, 1 => Just(0u32), 1 => (1u32..4).prop_map(|s| s * 1_000_000)];
    (prop_oneof![3 => Just(0i64), 2 => Just(2i64), 1 => Just(3i64)], prop_oneof![3 => Just(0i64), 1 => Just(1i64)], 0i64..25_000_000, 0u8..2, 0u8..2, (prop_oneof![2 => Just(0u8), 1 => 1u8..4], prop_oneof![1 => Just(0u8), 1 => 1u8..4]))
        .prop_flat_map(move |(transport, cancel, cdelay, rctx, pctx, (succ, aim))| {
            let op = d().prop_flat_map(|t| {
                // the peer sends never / early / around the deadline / late
                let e = if t == 0 {
                    prop_oneof![3 => 0u32..30_000, 1 => Just(NEVER)].boxed()
                } else {
                    prop_oneof![2 => Just(NEVER), 2 => 0u32..=t, 3 => (0u32..2_000).prop_map(move |o| (t + o).saturating_sub(1_000)), 1 => (t + 1_000)..=(2 * t + 2_000)].boxed()
                };
                (Just(t), e)
            });
            let by = (0u8..2, 0u8..2, 0u32..40_000, 1u32..8_192, 1u32..8_192, prop_oneof![3 => Just(0u32), 1 => 1u32..3]).prop_map(|(wc, rc, total, chunk, buf, refused)| {
                let mut wops = vec![Op(W, total, chunk.max(total / 100 + 1))];
                if refused > 0 {
                    wops.push(Op(REFUSED, refused, 0));
                }
                (Actor { ctx: wc, role: 0, ops: wops }, Actor { ctx: rc, role: 1, ops: vec![Op(R, buf.max(total / 100 + 1), 0)] })
            });
            (Just((transport, cancel, cdelay, rctx, pctx, succ, aim)), proptest::collection::vec(op, 1..=4), proptest::collection::vec(by, 0..=2), gen::config(&g2), prop_oneof![3 => gen::schedule(&g2, false), 1 => gen::schedule(&g2, true)])
        })
        .prop_map(|((transport, cancel, cdelay, rctx, pctx, succ, aim), ops, bys, (workers, pool, feat), sched)| {
            let mut reads = vec![];
            let mut sends = vec![];
            for (t, e) in ops {
                reads.push(Op(READ, t, 0));
                sends.push(Op(SEND_AT, e, cancel as u32));
            }
            // an untimed read needs its byte unless the reader gets cancelled
            let n = reads.len();
            let split = if n >= 2 { (succ as usize).min(n - 1) } else { 0 };
            // an aimed cancel mostly hits a read that only the cancel can end (no time-out, no
            // data): a cancel that gets lost in the registration window is then a hang
            if cancel == 1 && aim > 0 && cdelay % 2 == 0 {
                let first_to = if split > 0 { split } else { n };
                let k = (aim as usize - 1).min(first_to - 1);
                reads[k].1 = 0;
                sends[k].1 = NEVER;
            }
            for (i, (r, s)) in reads.iter().zip(sends.iter_mut()).enumerate() {
                // (the successor is never cancelled and continues wherever the first reader stopped)
                let _ = i;
                if r.1 == 0 && s.1 == NEVER && (cancel == 0 || split > 0) {
                    s.1 = 500;
                }
            }
            let mut actors = vec![Actor { ctx: rctx, role: 1, ops: reads }, Actor { ctx: pctx, role: 0, ops: sends }];
            for (w, r) in bys {
                actors.push(w);
                actors.push(r);
            }
            Case { fam: "netto".into(), workers, pool, feat, cfg: vec![transport, cancel, cdelay, succ as i64, if cancel == 1 { aim as i64 } else { 0 }], actors, sched, weak: 0 }
        })
        .boxed()
}
