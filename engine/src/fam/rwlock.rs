//! `rwlock` family (C12): writers exclusive, guards release what they acquired (also the ones
//! recovered from a PoisonError), lock free again at the end, blocked lockers get the lock
use crate::case::{Actor, Case, Op, Outcome};
use crate::fam::mutex::{cancel_targets, canceller_strategy, spawn_cancellers};
use crate::gen::{self, GenCfg};
use crate::sched;
use crate::util::*;
use may::sync::RwLock;
use proptest::prelude::*;
use std::sync::atomic::{AtomicIsize, AtomicUsize, Ordering};
use std::sync::{Arc, TryLockError};

pub const READ: u8 = 0; // arg = yields inside
pub const WRITE: u8 = 1;
pub const TRY_READ: u8 = 2;
pub const TRY_WRITE: u8 = 3;
pub const WRITE_PANIC: u8 = 4; // panic while holding the write guard
pub const YIELD: u8 = 5;
pub const SLEEP: u8 = 6;

pub const EXPECTED_PANIC: &str = "mv-expected-panic";

pub fn opname(op: u8) -> &'static str {
    match op {
        READ => "read",
        WRITE => "write",
        TRY_READ => "try_read",
        TRY_WRITE => "try_write",
        WRITE_PANIC => "write+panic",
        YIELD => "yield",
        SLEEP => "sleep",
        20 => "cancel",
        _ => "?",
    }
}

struct Occ<'a>(&'a AtomicIsize, isize);
impl Drop for Occ<'_> {
    fn drop(&mut self) {
        self.0.fetch_sub(self.1, Ordering::SeqCst);
    }
}

pub fn run(case: &Case) -> Outcome {
    let mut out = Outcome::new();
    let l = Arc::new(RwLock::new(0usize));
    // occupancy: +1 per reader, +1000 per writer
    let occ = Arc::new(AtomicIsize::new(0));
    let bad = Arc::new(AtomicUsize::new(0));
    let poisoned_guards = Arc::new(AtomicUsize::new(0));
    let log = Log::new();
    let desc: Vec<String> = case.actors.iter().map(|a| format!("{}/{}", if a.role == 9 { "canceller" } else { "locker" }, ctx_name(a.ctx))).collect();
    let states = States::install(desc, opname);
    let mut handles = vec![];
    let mut cos = vec![];
    for (ai, a) in case.actors.iter().enumerate() {
        if a.role == 9 {
            cos.push(None);
            continue;
        }
        let (l, occ, bad, pg, log, states) = (l.clone(), occ.clone(), bad.clone(), poisoned_guards.clone(), log.clone(), states.clone());
        let ops = a.ops.clone();
        let h = spawn(a.ctx, "locker", move || {
            let _dg = DoneGuard(&states, ai);
            for (i, op) in ops.iter().enumerate() {
                states.enter(ai, i, op.0);
                match op.0 {
                    READ | TRY_READ => {
                        let c = log.call(ai, i, op.0);
                        let g = if op.0 == READ {
                            Some(l.read().unwrap_or_else(|e| {
                                pg.fetch_add(1, Ordering::SeqCst);
                                e.into_inner()
                            }))
                        } else {
                            match l.try_read() {
                                Ok(g) => Some(g),
                                Err(TryLockError::Poisoned(e)) => {
                                    pg.fetch_add(1, Ordering::SeqCst);
                                    Some(e.into_inner())
                                }
                                Err(TryLockError::WouldBlock) => None,
                            }
                        };
                        log.ret(c, g.is_some() as i64, 0);
                        if let Some(g) = g {
                            if occ.fetch_add(1, Ordering::SeqCst) >= 1000 {
                                bad.fetch_add(1, Ordering::SeqCst);
                            }
                            let o = Occ(&occ, 1);
                            for _ in 0..op.1 {
                                pause();
                            }
                            let _ = *g;
                            drop(o);
                            drop(g);
                        }
                    }
                    WRITE | TRY_WRITE | WRITE_PANIC => {
                        let c = log.call(ai, i, op.0);
                        let g = if op.0 != TRY_WRITE {
                            Some(l.write().unwrap_or_else(|e| {
                                pg.fetch_add(1, Ordering::SeqCst);
                                e.into_inner()
                            }))
                        } else {
                            match l.try_write() {
                                Ok(g) => Some(g),
                                Err(TryLockError::Poisoned(e)) => {
                                    pg.fetch_add(1, Ordering::SeqCst);
                                    Some(e.into_inner())
                                }
                                Err(TryLockError::WouldBlock) => None,
                            }
                        };
                        log.ret(c, g.is_some() as i64, 0);
                        if let Some(mut g) = g {
                            if occ.fetch_add(1000, Ordering::SeqCst) != 0 {
                                bad.fetch_add(1, Ordering::SeqCst);
                            }
                            let o = Occ(&occ, 1000);
                            let v = *g;
                            for _ in 0..op.1 {
                                pause();
                            }
                            *g = v + 1;
                            if op.0 == WRITE_PANIC {
                                panic!("{}", EXPECTED_PANIC);
                            }
                            drop(o);
                            drop(g);
                        }
                    }
                    YIELD => pause(),
                    SLEEP => sleep_ns(op.1 as u64),
                    _ => {}
                }
                states.leave(ai, i);
            }
        });
        cos.push(h.coroutine().cloned());
        handles.push((ai, h));
    }
    let cancellers = spawn_cancellers(case, &cos);
    let targets = cancel_targets(case);
    let mut cancelled = 0;
    let mut panics = 0;
    // panics of actors that also had a cancel pending: may cannot tell such an unwind from
    // a cancellation unwind, either poison state is accepted for them
    let mut panics_of_targets = 0;
    for (ai, h) in handles {
        match h.join() {
            End::Ok(()) => {}
            End::Cancel => {
                cancelled += 1;
                if !targets.contains(&ai) {
                    out.fail("cancel-observed-by-uncancelled-actor", format!("actor {ai}"));
                }
            }
            End::Panic(s) if s == EXPECTED_PANIC => {
                panics += 1;
                if targets.contains(&ai) {
                    panics_of_targets += 1;
                }
            }
            End::Panic(s) => out.fail("guard-or-lock-op-panicked", format!("actor {ai}: {s}")),
        }
    }
    for h in cancellers {
        let _ = h.join();
    }
    crate::child::settle();
    if bad.load(Ordering::SeqCst) > 0 {
        out.fail("writer-not-exclusive", format!("poisoned={}", l.is_poisoned()));
    }
    match l.try_write() {
        Ok(_) | Err(TryLockError::Poisoned(_)) => {}
        Err(TryLockError::WouldBlock) => out.fail("not-free-after-all-guards-dropped", format!("poisoned={} cancelled={cancelled}", l.is_poisoned())),
    }
    let must = panics - panics_of_targets > 0;
    let may_be = panics > 0;
    if (l.is_poisoned() && !may_be) || (!l.is_poisoned() && must) {
        out.fail("poison-flag-wrong", format!("poisoned={} panics={panics}", l.is_poisoned()));
    }
    let obs = log.take();
    let got: Vec<&Obs> = obs.iter().filter(|o| o.res == 1).collect();
    let overlap = got.iter().any(|a| got.iter().any(|b| a.actor != b.actor && a.c < b.r && b.c < a.r));
    let pre = sched::preempts() > 0;
    let pg = poisoned_guards.load(Ordering::SeqCst);
    out.flag_if(overlap, "lock_calls_overlapped");
    out.flag_if(pre, "preempted");
    out.flag_if(pg > 0, "guard_from_poison_error");
    out.flag_if(panics > 0, "poisoned");
    out.flag_if(cancelled > 0, "cancel_delivered");
    out.flag_if(case.actors.iter().filter(|a| a.role == 0).count() == 1, "single_actor");
    out.nontrivial = (pre && overlap) || pg > 0;
    out
}

pub fn strategy(g: &GenCfg) -> BoxedStrategy<Case> {
    let op = prop_oneof![
        4 => (0u32..3).prop_map(|w| Op(READ, w, 0)),
        4 => (0u32..3).prop_map(|w| Op(WRITE, w, 0)),
        2 => (0u32..2).prop_map(|w| Op(TRY_READ, w, 0)),
        2 => (0u32..2).prop_map(|w| Op(TRY_WRITE, w, 0)),
        1 => (0u32..2).prop_map(|w| Op(WRITE_PANIC, w, 0)),
        1 => Just(Op(YIELD, 0, 0)),
        1 => (0u32..3_000).prop_map(|ns| Op(SLEEP, ns, 0)),
    ];
    let actor = (0u8..2, proptest::collection::vec(op, 1..5)).prop_map(|(ctx, mut ops)| {
        // nothing runs after a panic
        if let Some(p) = ops.iter().position(|o| o.0 == WRITE_PANIC) {
            ops.truncate(p + 1);
        }
        Actor { ctx, role: 0, ops }
    });
    let g2 = g.clone();
    proptest::collection::vec(actor, 1..=5)
        .prop_flat_map(move |actors| {
            let n = actors.len();
            (Just(actors), canceller_strategy(n, 20_000), gen::config(&g2), gen::schedule(&g2, false))
        })
        .prop_map(|(mut actors, canc, (workers, pool, feat), sched)| {
            if let Some(c) = canc {
                actors.push(c);
            }
            Case { fam: "rwlock".into(), workers, pool, feat, cfg: vec![], actors, sched, weak: 0 }
        })
        .boxed()
}
