//! `cqueue` family (C16): every event is consumed exactly once with its bottom half run exactly
//! once; Finished / Timeout are truthful; select! returns a fully run arm; arm panics re-raised
//!
//! cfg[0] = 0: cqueue API with generated arms and polls, 1: the select! macro
//! actor 0 = poller (thread or coroutine): ops = polls Op(POLL, timeout ns (0 = None), 0),
//!           Op(REMOVE, arm, 0)
//! role 1 = arm: ops[0] = Op(kind, events, panic position (0 none, 1 top of last event, 2 bottom))
//!          kind 0 immediate, 1 mpsc recv, 2 sleep(arg of ops[1]), 3 semaphore wait
//! role 2 = feeder of the previous arm: ops = Op(FEED, delay ns, 0)
use crate::case::{Actor, Case, Op, Outcome};
use crate::gen::{self, GenCfg};
use crate::sched;
use crate::util::*;
use may::sync::{mpsc, Semphore};
use proptest::prelude::*;
use std::sync::atomic::{AtomicUsize, Ordering};
use std::sync::Arc;
use std::time::Duration;

pub const POLL: u8 = 0;
pub const REMOVE: u8 = 1;
/// Op(REMOVE_AT, arm, (k << 16) | delay ns): remove the arm a few schedule points after it has
/// finished its k-th top half, i.e. while it goes through EventSender::send
pub const REMOVE_AT: u8 = 2;
const ARM_KEY: usize = 0x41524d;
pub const A_IMM: u8 = 0;
pub const A_RECV: u8 = 1;
pub const A_SLEEP: u8 = 2;
pub const A_SEM: u8 = 3;
pub const FEED: u8 = 9;
pub const POLLER: u8 = 20;

const R_EVENT: i64 = 0;
const R_TIMEOUT: i64 = 1;
const R_FINISHED: i64 = 2;

pub fn opname(op: u8) -> &'static str {
    match op {
        POLL => "poll",
        REMOVE => "remove",
        REMOVE_AT => "remove(aimed)",
        FEED => "feed",
        POLLER => "poller",
        _ => "?",
    }
}

struct ArmState {
    top: AtomicUsize,
    bottom: AtomicUsize,
    ended: AtomicUsize,
    running: AtomicUsize,
    /// set right before the arm panics
    panicked: AtomicUsize,
}

struct End_(Arc<Vec<ArmState>>, usize);
impl Drop for End_ {
    fn drop(&mut self) {
        self.0[self.1].ended.store(1, Ordering::SeqCst);
        sched::notify(ARM_KEY);
    }
}
struct Running<'a>(&'a AtomicUsize);
impl Drop for Running<'_> {
    fn drop(&mut self) {
        self.0.fetch_sub(1, Ordering::SeqCst);
    }
}

pub fn run(case: &Case) -> Outcome {
    if case.cfg(0) == 1 {
        return run_select(case);
    }
    let mut out = Outcome::new();
    let poller = &case.actors[0];
    // arms and their feeders
    let mut arms: Vec<(&Actor, Vec<&Actor>)> = vec![];
    for a in case.actors.iter().skip(1) {
        if a.role == 1 {
            arms.push((a, vec![]));
        } else if let Some(l) = arms.last_mut() {
            l.1.push(a);
        }
    }
    let n = arms.len();
    let st: Arc<Vec<ArmState>> = Arc::new((0..n).map(|_| ArmState { top: AtomicUsize::new(0), bottom: AtomicUsize::new(0), ended: AtomicUsize::new(0), running: AtomicUsize::new(0), panicked: AtomicUsize::new(0) }).collect());
    let states = States::install(vec![format!("poller/{}", ctx_name(poller.ctx))], opname);
    let log = Log::new();
    // per arm sources
    let mut txs = vec![];
    let mut rxs = vec![];
    let mut sems = vec![];
    for _ in 0..n {
        let (tx, rx) = mpsc::channel::<usize>();
        txs.push(tx);
        rxs.push(Some(rx));
        sems.push(Arc::new(Semphore::new(0)));
    }
    // feeders
    let mut feeders = vec![];
    for (i, (arm, fs)) in arms.iter().enumerate() {
        let kind = arm.ops[0].0;
        for f in fs {
            let tx = txs[i].clone();
            let sem = sems[i].clone();
            let ops = f.ops.clone();
            feeders.push(spawn(f.ctx, "feeder", move || {
                for op in ops {
                    sleep_ns(op.1 as u64);
                    if kind == A_SEM {
                        sem.post();
                    } else {
                        let _ = tx.send(1);
                    }
                }
            }));
        }
    }
    let arm_specs: Vec<(u8, usize, u32, u32)> = arms.iter().map(|(a, _)| (a.ops[0].0, a.ops[0].1 as usize, a.ops[0].2, a.ops.get(1).map(|o| o.1).unwrap_or(1000))).collect();
    let pops = poller.ops.clone();
    let (st2, log2, states2) = (st.clone(), log.clone(), states.clone());
    let violations: Arc<std::sync::Mutex<Vec<(String, String)>>> = Arc::new(std::sync::Mutex::new(vec![]));
    let v2 = violations.clone();
    let sems2 = sems.clone();
    let h = spawn(poller.ctx, "poller", move || {
        let _dg = DoneGuard(&states2, 0);
        let mut rxs = rxs;
        let fail = |fp: &str, d: String| v2.lock().unwrap().push((fp.to_string(), d));
        let mut consumed = vec![0usize; n];
        may::cqueue::scope(|cq| {
            let mut selectors = vec![];
            for (i, (kind, events, panic_at, arg)) in arm_specs.iter().cloned().enumerate() {
                let st3 = st2.clone();
                let rx = rxs[i].take();
                let sem = sems2[i].clone();
                selectors.push(Some(cq.add(i, move |es| {
                    let _end = End_(st3.clone(), i);
                    for e in 0..events {
                        // ---- top half ----
                        {
                            st3[i].running.fetch_add(1, Ordering::SeqCst);
                            let _r = Running(&st3[i].running);
                            match kind {
                                A_RECV => {
                                    if rx.as_ref().unwrap().recv().is_err() {
                                        return;
                                    }
                                }
                                A_SLEEP => may::coroutine::sleep(Duration::from_nanos(arg as u64)),
                                A_SEM => sem.wait(),
                                _ => {}
                            }
                            if panic_at == 1 && e + 1 == events {
                                st3[i].panicked.store(1, Ordering::SeqCst);
                                panic!("mv-expected-panic-arm-{i}");
                            }
                            st3[i].top.fetch_add(1, Ordering::SeqCst);
                            sched::notify(ARM_KEY);
                        }
                        es.send(e);
                        // ---- bottom half ----
                        st3[i].running.fetch_add(1, Ordering::SeqCst);
                        let _r = Running(&st3[i].running);
                        let b = st3[i].bottom.fetch_add(1, Ordering::SeqCst) + 1;
                        if b > st3[i].top.load(Ordering::SeqCst) {
                            st3[i].bottom.fetch_add(1_000_000, Ordering::SeqCst);
                        }
                        if panic_at == 2 && e + 1 == events {
                            st3[i].panicked.store(1, Ordering::SeqCst);
                            panic!("mv-expected-panic-arm-{i}");
                        }
                    }
                })));
            }
            for (k, op) in pops.iter().enumerate() {
                states2.enter(0, k, op.0);
                if op.0 == REMOVE || op.0 == REMOVE_AT {
                    if op.0 == REMOVE_AT && (op.1 as usize) < n {
                        let (arm, k, d) = (op.1 as usize, (op.2 >> 16) as usize, (op.2 & 0xffff) as u64);
                        let reached = || st2[arm].top.load(Ordering::SeqCst) >= k || st2[arm].ended.load(Ordering::SeqCst) != 0;
                        if may::coroutine::is_coroutine() {
                            poll_until(reached, 5_000_000_000);
                        } else {
                            let give_up = sched::now_ns() + 5_000_000_000;
                            while !reached() && sched::now_ns() < give_up {
                                sched::block(ARM_KEY, Some(give_up), false);
                            }
                        }
                        if d > 0 {
                            sleep_ns(d);
                        }
                    }
                    if let Some(s) = selectors.get_mut(op.1 as usize).and_then(|s| s.take()) {
                        s.remove();
                    }
                    continue;
                }
                let snap: Vec<usize> = (0..n).map(|i| st2[i].bottom.load(Ordering::SeqCst)).collect();
                let d = op.1 as u64;
                let c = log2.call(0, k, POLL);
                let r = cq.poll(if d == 0 { None } else { Some(Duration::from_nanos(d)) });
                match r {
                    Ok(ev) => {
                        log2.ret(c, R_EVENT, ev.token as i64);
                        let i = ev.token;
                        if i >= n {
                            fail("event-with-unknown-token", format!("{i}"));
                            continue;
                        }
                        if ev.extra != consumed[i] {
                            fail("event-out-of-order-or-duplicated", format!("arm {i}: event number {} but {} consumed so far", ev.extra, consumed[i]));
                        }
                        consumed[i] += 1;
                        for j in 0..n {
                            let now = st2[j].bottom.load(Ordering::SeqCst);
                            let want = snap[j] + if j == i { 1 } else { 0 };
                            if now != want {
                                fail(
                                    if j == i { "bottom-half-not-run-exactly-once-at-poll-return" } else { "bottom-half-of-other-arm-ran" },
                                    format!("poll returned arm {i}; arm {j} bottom {now}, expected {want}"),
                                );
                            }
                        }
                        if st2[i].running.load(Ordering::SeqCst) != 0 && arm_specs[i].0 == A_IMM && false {
                            fail("arm-still-executing-at-poll-return", format!("arm {i}"));
                        }
                    }
                    Err(e) => {
                        let fin = e == may::cqueue::PollError::Finished;
                        log2.ret(c, if fin { R_FINISHED } else { R_TIMEOUT }, 0);
                        for j in 0..n {
                            if st2[j].bottom.load(Ordering::SeqCst) != snap[j] {
                                fail("bottom-half-ran-without-event-returned", format!("arm {j}"));
                            }
                        }
                        if fin {
                            for j in 0..n {
                                if st2[j].ended.load(Ordering::SeqCst) == 0 {
                                    fail("finished-before-all-arms-ended", format!("arm {j} still alive"));
                                }
                            }
                            break;
                        }
                    }
                }
                states2.leave(0, k);
            }
            states2.enter(0, pops.len(), POLLER);
        });
        // after the scope: no arm alive, counters consistent
        for j in 0..n {
            if st2[j].ended.load(Ordering::SeqCst) == 0 || st2[j].running.load(Ordering::SeqCst) != 0 {
                fail("arm-alive-after-scope", format!("arm {j}"));
            }
            let (t, b) = (st2[j].top.load(Ordering::SeqCst), st2[j].bottom.load(Ordering::SeqCst));
            if b >= 1_000_000 {
                fail("bottom-half-before-its-top-half", format!("arm {j}"));
            } else if b > t || t > b + 1 {
                fail("top-bottom-mismatch", format!("arm {j} top {t} bottom {b}"));
            } else if b < consumed[j] {
                fail("event-consumed-without-bottom-half", format!("arm {j} bottom {b} consumed {}", consumed[j]));
            }
        }
        consumed
    });
    let end = h.join();
    drop(txs);
    for f in feeders {
        let _ = f.join();
    }
    crate::child::settle();
    for (fp, d) in violations.lock().unwrap().iter() {
        out.fail(fp, d.clone());
    }
    let panicking: Vec<usize> = arm_specs_panic(case);
    match &end {
        End::Ok(_) => {}
        End::Panic(s) if s.starts_with("mv-expected-panic-arm-") && !panicking.is_empty() => {}
        e => out.fail("poller-ended-abnormally", e.kind()),
    }
    // a panic in an arm is re-raised in the poller: by the poll that meets the arm's Done
    // event, at the latest by the drain when the scope is left
    let did_panic: Vec<usize> = (0..n).filter(|&i| st[i].panicked.load(Ordering::SeqCst) != 0).collect();
    if !did_panic.is_empty() && !matches!(end, End::Panic(_)) {
        out.fail("arm-panic-not-re-raised-in-the-poller", format!("arms {did_panic:?} panicked, the poller ended with {}", end.kind()));
    }
    // Timeout only after the given time
    let obs = log.take();
    for o in obs.iter().filter(|o| o.res == R_TIMEOUT) {
        let d = case.actors[0].ops[o.idx].1 as u64;
        if d == 0 {
            out.fail("timeout-without-timeout", String::new());
        } else if o.vr - o.vc < d {
            out.fail("poll-timeout-early", format!("elapsed {} d {d}", o.vr - o.vc));
        }
    }
    let pre = sched::preempts() > 0;
    let events = obs.iter().filter(|o| o.res == R_EVENT).count();
    out.flag("cqueue_api");
    out.flag_if(pre, "preempted");
    out.flag_if(events > 0, "event_polled");
    out.flag_if(obs.iter().any(|o| o.res == R_FINISHED), "finished_seen");
    out.flag_if(obs.iter().any(|o| o.res == R_TIMEOUT), "timeout_seen");
    out.flag_if(!panicking.is_empty(), "arm_panics");
    out.flag_if(case.actors[0].ops.iter().any(|o| o.0 == REMOVE), "selector_removed");
    out.flag_if(sched::preempted_in("cqueue.rs"), "preempted_in_cqueue_rs");
    out.flag_if(n >= 2, "several_arms");
    out.nontrivial = pre && events > 0 && n >= 2;
    out
}

fn arm_specs_panic(case: &Case) -> Vec<usize> {
    case.actors.iter().enumerate().filter(|(_, a)| a.role == 1 && a.ops[0].2 != 0).map(|(i, _)| i).collect()
}

/// the select! macro: 2-3 receiving arms, feeders with delays; the returned token must be of an
/// arm whose top and bottom halves have run, nothing is executing any more when it returns
fn run_select(case: &Case) -> Outcome {
    let mut out = Outcome::new();
    let poller = &case.actors[0];
    let feeds: Vec<u64> = case.actors.iter().skip(1).filter(|a| a.role == 2).map(|a| a.ops[0].1 as u64).collect();
    let n = feeds.len().clamp(2, 3);
    let st: Arc<Vec<ArmState>> = Arc::new((0..3).map(|_| ArmState { top: AtomicUsize::new(0), bottom: AtomicUsize::new(0), ended: AtomicUsize::new(0), running: AtomicUsize::new(0), panicked: AtomicUsize::new(0) }).collect());
    let states = States::install(vec![format!("selector/{}", ctx_name(poller.ctx))], opname);
    let mut txs = vec![];
    let mut rxs = vec![];
    for _ in 0..3 {
        let (tx, rx) = mpsc::channel::<usize>();
        txs.push(tx);
        rxs.push(rx);
    }
    let mut feeders = vec![];
    for (i, d) in feeds.iter().cloned().enumerate().take(n) {
        let tx = txs[i].clone();
        let ctx = case.actors.iter().skip(1).filter(|a| a.role == 2).nth(i).map(|a| a.ctx).unwrap_or(TH);
        feeders.push(spawn(ctx, "feeder", move || {
            sleep_ns(d);
            let _ = tx.send(i);
        }));
    }
    let (st2, states2) = (st.clone(), states.clone());
    let h = spawn(poller.ctx, "selector", move || {
        let _dg = DoneGuard(&states2, 0);
        states2.enter(0, 0, POLL);
        let (r0, r1, r2) = (&rxs[0], &rxs[1], &rxs[2]);
        let st = &st2;
        let top = |i: usize, v: Result<usize, std::sync::mpsc::RecvError>| {
            st[i].running.fetch_add(1, Ordering::SeqCst);
            st[i].top.fetch_add(1, Ordering::SeqCst);
            st[i].running.fetch_sub(1, Ordering::SeqCst);
            v
        };
        let bottom = |i: usize| {
            st[i].running.fetch_add(1, Ordering::SeqCst);
            st[i].bottom.fetch_add(1, Ordering::SeqCst);
            st[i].running.fetch_sub(1, Ordering::SeqCst);
        };
        let token = if n == 2 {
            may::select!(
                _ = top(0, r0.recv()) => bottom(0),
                _ = top(1, r1.recv()) => bottom(1)
            )
        } else {
            may::select!(
                _ = top(0, r0.recv()) => bottom(0),
                _ = top(1, r1.recv()) => bottom(1),
                _ = top(2, r2.recv()) => bottom(2)
            )
        };
        let tops: Vec<usize> = (0..3).map(|i| st[i].top.load(Ordering::SeqCst)).collect();
        let bots: Vec<usize> = (0..3).map(|i| st[i].bottom.load(Ordering::SeqCst)).collect();
        let running: usize = (0..3).map(|i| st[i].running.load(Ordering::SeqCst)).sum();
        (token, tops, bots, running)
    });
    let end = h.join();
    // later activity of arms that should be gone
    sleep_ns(5_000_000);
    let late: Vec<usize> = (0..3).map(|i| st[i].top.load(Ordering::SeqCst) + st[i].bottom.load(Ordering::SeqCst)).collect();
    drop(txs);
    for f in feeders {
        let _ = f.join();
    }
    crate::child::settle();
    match end {
        End::Ok((token, tops, bots, running)) => {
            if token >= n {
                out.fail("select-returned-unknown-token", format!("{token}"));
            } else {
                if tops[token] != 1 || bots[token] != 1 {
                    out.fail("select-returned-arm-not-fully-run", format!("token {token} top {} bottom {}", tops[token], bots[token]));
                }
                if running != 0 {
                    out.fail("select-returned-while-an-arm-was-executing", String::new());
                }
                for i in 0..3 {
                    if bots[i] > tops[i] || bots[i] > 1 {
                        out.fail("select-bottom-half-count", format!("arm {i} top {} bottom {}", tops[i], bots[i]));
                    }
                    if late[i] != tops[i] + bots[i] {
                        out.fail("select-arm-ran-after-return", format!("arm {i}"));
                    }
                }
            }
        }
        e => out.fail("selector-ended-abnormally", e.kind()),
    }
    let pre = sched::preempts() > 0;
    let mut f2 = feeds.clone();
    f2.truncate(n);
    f2.sort();
    let close = f2.windows(2).any(|w| w[1] - w[0] < 3_000);
    out.flag("select_macro");
    out.flag_if(pre, "preempted");
    out.flag_if(close, "two_arms_ready_within_3us");
    out.nontrivial = pre && close;
    out
}

pub fn strategy(g: &GenCfg) -> BoxedStrategy<Case> {
    let g2 = g.clone();
    let d = || prop_oneof![2 => 0u32..3_000, 2 => 0u32..300_000, 1 => Just(1_000_000u32)];
    // ---- cqueue API ----
    let arm = (prop_oneof![2 => Just(A_IMM), 3 => Just(A_RECV), 2 => Just(A_SLEEP), 2 => Just(A_SEM)], 1u32..=3, prop_oneof![8 => Just(0u32), 1 => Just(1u32), 1 => Just(2u32)], d(), proptest::collection::vec((0u8..2, d()), 0..=3), 0u8..2);
    let g3 = g2.clone();
    let api = (0u8..2, proptest::collection::vec(arm, 1..=4), proptest::collection::vec(prop_oneof![6 => prop_oneof![2 => Just(0u32), 1 => 1u32..2_000_000, 1 => Just(1_000_000u32)].prop_map(|t| Op(POLL, t, 0)), 1 => (0u32..4).prop_map(|a| Op(REMOVE, a, 0)), 1 => (0u32..4, 1u32..=3, 0u32..1_500).prop_map(|(a, k, d)| Op(REMOVE_AT, a, (k << 16) | d))], 1..=6), gen::config(&g3), gen::schedule(&g3, false))
        .prop_map(|(pctx, arms, mut polls, (workers, pool, feat), sched)| {
            let n = arms.len();
            // an untimed poll can only be issued while events or the end of all arms are still
            // to come: make every poll timed unless all arms are certain to deliver
            let mut actors = vec![];
            let mut certain_events = 0usize;
            let mut arm_actors = vec![];
            // an arm that needs no feeds and panics in its last top half ends every untimed poll
            // sooner or later: with its events or with the panic that poll has to re-raise
            // (its Done event must wake a parked poller although other arms stay pending)
            let panic_arm = arms.iter().any(|a| a.2 == 1 && matches!(a.0, A_IMM | A_SLEEP));
            for (kind, events, panic_at, arg, feeds, _c) in arms {
                let supplied = match kind {
                    A_RECV | A_SEM => feeds.len().min(events as usize),
                    _ => events as usize,
                };
                certain_events += if panic_at == 0 { supplied } else { supplied.saturating_sub(1) };
                arm_actors.push(Actor { ctx: CO, role: 1, ops: vec![Op(kind, events, panic_at), Op(0, arg.max(1), 0)] });
                // one feeder delivering its items in sequence
                if matches!(kind, A_RECV | A_SEM) && !feeds.is_empty() {
                    let ctx = feeds[0].0;
                    arm_actors.push(Actor { ctx, role: 2, ops: feeds.iter().map(|(_, dl)| Op(FEED, *dl, 0)).collect() });
                }
            }
            // untimed polls only as long as events are certain to come; the others get a time-out
            let mut budget = if panic_arm { usize::MAX / 2 } else { certain_events };
            for p in polls.iter_mut() {
                if p.0 == POLL {
                    if p.1 == 0 {
                        if budget == 0 {
                            p.1 = 1_500_000;
                        } else {
                            budget -= 1;
                        }
                    } else if budget > 0 {
                        budget -= 1;
                    }
                } else {
                    // removing an arm makes its remaining events uncertain
                    p.1 %= n as u32;
                    budget = 0;
                }
            }
            actors.push(Actor { ctx: pctx, role: 0, ops: polls });
            actors.extend(arm_actors);
            Case { fam: "cqueue".into(), workers, pool, feat, cfg: vec![0], actors, sched, weak: 0 }
        });
    // ---- select! ----
    let g4 = g2.clone();
    let sel = (0u8..2, proptest::collection::vec((0u8..2, prop_oneof![1 => 0u32..2_000, 1 => Just(1_000u32), 1 => 0u32..200_000]), 2..=3), gen::config(&g4), gen::schedule(&g4, false)).prop_map(|(pctx, feeds, (workers, pool, feat), sched)| {
        let mut actors = vec![Actor { ctx: pctx, role: 0, ops: vec![] }];
        for (ctx, dl) in feeds {
            actors.push(Actor { ctx, role: 2, ops: vec![Op(FEED, dl, 0)] });
        }
        Case { fam: "cqueue".into(), workers, pool, feat, cfg: vec![1], actors, sched, weak: 0 }
    });
    prop_oneof![3 => api, 1 => sel].boxed()
}
