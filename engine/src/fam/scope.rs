//! `scope` family (C14): a scope is never left while one of its coroutines is still running
//!
//! cfg[0] = scope kind: 0 coroutine::scope, 1 join! inside a select arm of cqueue::scope (safe
//!          code only: the arm is cancelled when another arm wins), 2 cqueue::scope with looping arms
//! cfg[1] = owner fault: 0 none, 1 panics in the scope body after spawning, 2 is cancelled
//! cfg[2] = delay of the cancel in ns / for kind 1: delay after which the competing arm fires
//! cfg[4] = k > 0 (kind 0): the owner calls ScopedJoinHandle::join on child k-1 inside the body
//! actor 0 = owner (thread or coroutine), ops unused
//! role 1 = child: ops = steps; role 2 = grandchild of the previous child (nested scope)
use crate::case::{Actor, Case, Op, Outcome};
use crate::gen::{self, GenCfg};
use crate::sched;
use crate::util::*;
use proptest::prelude::*;
use std::sync::atomic::{AtomicBool, AtomicUsize, Ordering};
use std::sync::Arc;
use std::time::Duration;

pub const YIELD: u8 = 1;
pub const SLEEP: u8 = 2;
pub const PARKTO: u8 = 3;
pub const PANIC: u8 = 4;
pub const OWNER: u8 = 20;

pub fn opname(op: u8) -> &'static str {
    match op {
        YIELD => "yield",
        SLEEP => "sleep",
        PARKTO => "park_timeout",
        PANIC => "panic",
        OWNER => "scope",
        _ => "?",
    }
}

struct Frame {
    dead: Arc<AtomicBool>,
    value: usize,
}
impl Drop for Frame {
    fn drop(&mut self) {
        self.dead.store(true, Ordering::SeqCst);
    }
}

struct Obs {
    dead: Arc<AtomicBool>,
    after_death: AtomicUsize,
    steps_done: AtomicUsize,
    running: AtomicUsize,
    finished: AtomicUsize,
    unfinished_at_fault: AtomicUsize,
}

fn child_body(o: &Obs, frame: &Frame, steps: &[Op], me: usize) {
    o.running.fetch_add(1, Ordering::SeqCst);
    struct Run<'a>(&'a Obs);
    impl Drop for Run<'_> {
        fn drop(&mut self) {
            self.0.running.fetch_sub(1, Ordering::SeqCst);
            self.0.finished.fetch_add(1, Ordering::SeqCst);
        }
    }
    let _r = Run(o);
    for st in steps {
        match st.0 {
            YIELD => may::coroutine::yield_now(),
            SLEEP => may::coroutine::sleep(Duration::from_nanos(st.1 as u64)),
            PARKTO => may::coroutine::park_timeout(Duration::from_nanos(st.1 as u64)),
            PANIC => panic!("mv-expected-panic-child-{me}"),
            _ => {}
        }
        // touch the borrowed frame: it must be alive as long as we run
        if o.dead.load(Ordering::SeqCst) {
            o.after_death.fetch_add(1, Ordering::SeqCst);
            return;
        }
        assert_eq!(frame.value, 7);
        o.steps_done.fetch_add(1, Ordering::SeqCst);
    }
}

fn run_scope(case: &Case, o: &Obs) {
    let frame = Frame { dead: o.dead.clone(), value: 7 };
    let fault = case.cfg(1);
    // children with their grandchildren
    let mut kids: Vec<(usize, &Actor, Vec<(usize, &Actor)>)> = vec![];
    for (i, a) in case.actors.iter().enumerate().skip(1) {
        if a.role == 1 {
            kids.push((i, a, vec![]));
        } else if a.role == 2 {
            if let Some(k) = kids.last_mut() {
                k.2.push((i, a));
            }
        }
    }
    let explicit = case.cfg(4);
    may::coroutine::scope(|s| {
        let mut handles = vec![];
        for (i, a, grand) in &kids {
            let fr = &frame;
            let h = unsafe {
                s.spawn(move || {
                    if grand.is_empty() {
                        child_body(o, fr, &a.ops, *i);
                    } else {
                        // a nested scope borrowing the same frame
                        may::coroutine::scope(|s2| {
                            for (gi, ga) in grand {
                                s2.spawn(move || child_body(o, fr, &ga.ops, *gi));
                            }
                            child_body(o, fr, &a.ops, *i);
                        });
                    }
                })
            };
            handles.push(Some(h));
        }
        // the owner joins one of its children itself inside the body (a cancel can hit it there)
        if explicit > 0 && !handles.is_empty() {
            let k = (explicit as usize - 1) % handles.len();
            if let Some(h) = handles[k].take() {
                h.join();
            }
        }
        if fault == 1 {
            o.unfinished_at_fault.store(o.running.load(Ordering::SeqCst) + 1, Ordering::SeqCst);
            panic!("mv-expected-panic-owner");
        }
    });
}

fn run_select_join(case: &Case, o: &Obs) {
    // join! nested in a select arm: when the other arm wins, the arm that is blocked in its
    // join! is cancelled by the cqueue - the scope inside it must still wait for its children
    let frame = Frame { dead: o.dead.clone(), value: 7 };
    let delay = case.cfg(2).max(0) as u64;
    let kids: Vec<(usize, &Actor)> = case.actors.iter().enumerate().skip(1).filter(|(_, a)| a.role == 1).collect();
    may::cqueue::scope(|cq| {
        let fr = &frame;
        let kids2 = &kids;
        cq.add(0, move |es| {
            may::coroutine::scope(|s| {
                for (i, a) in kids2 {
                    unsafe {
                        s.spawn(move || child_body(o, fr, &a.ops, *i));
                    }
                }
            });
            es.send(0);
        });
        cq.add(1, move |es| {
            may::coroutine::sleep(Duration::from_nanos(delay));
            es.send(0);
        });
        // like select!: the first event wins, leaving the scope cancels the other arm
        let _ = cq.poll(None);
        o.unfinished_at_fault.store(o.running.load(Ordering::SeqCst), Ordering::SeqCst);
    });
}

fn run_cqueue_loop(case: &Case, o: &Obs) {
    let frame = Frame { dead: o.dead.clone(), value: 7 };
    let fault = case.cfg(1);
    let kids: Vec<(usize, &Actor)> = case.actors.iter().enumerate().skip(1).filter(|(_, a)| a.role == 1).collect();
    let polls = case.cfg(3).max(0) as usize;
    may::cqueue::scope(|cq| {
        for (t, (i, a)) in kids.iter().enumerate() {
            let fr = &frame;
            cq.add(t, move |es| {
                // every step is one event
                for st in a.ops.iter() {
                    child_body(o, fr, std::slice::from_ref(st), *i);
                    es.send(0);
                }
            });
        }
        for _ in 0..polls {
            if cq.poll(None).is_err() {
                break;
            }
        }
        if fault == 1 {
            o.unfinished_at_fault.store(o.running.load(Ordering::SeqCst) + 1, Ordering::SeqCst);
            panic!("mv-expected-panic-owner");
        }
    });
}

pub fn run(case: &Case) -> Outcome {
    let mut out = Outcome::new();
    let kind = case.cfg(0);
    let fault = case.cfg(1);
    let owner_ctx = if fault == 2 { CO } else { case.actors[0].ctx };
    let o = Arc::new(Obs {
        dead: Arc::new(AtomicBool::new(false)),
        after_death: AtomicUsize::new(0),
        steps_done: AtomicUsize::new(0),
        running: AtomicUsize::new(0),
        finished: AtomicUsize::new(0),
        unfinished_at_fault: AtomicUsize::new(0),
    });
    let states = States::install(vec![format!("owner/{}", ctx_name(owner_ctx))], opname);
    let (o2, case2, st2) = (o.clone(), case.clone(), states.clone());
    let left_scope = Arc::new(AtomicBool::new(false));
    let ls2 = left_scope.clone();
    let owner = spawn(owner_ctx, "owner", move || {
        let _dg = DoneGuard(&st2, 0);
        st2.enter(0, 0, OWNER);
        struct Left(Arc<AtomicBool>, Arc<Obs>, Arc<AtomicUsize>);
        let running_when_left = Arc::new(AtomicUsize::new(0));
        impl Drop for Left {
            fn drop(&mut self) {
                // declared before the scope: dropped after the scope has been left, also by unwinding
                self.2.store(self.1.running.load(Ordering::SeqCst), Ordering::SeqCst);
                self.0.store(true, Ordering::SeqCst);
            }
        }
        let _left = Left(ls2, o2.clone(), running_when_left.clone());
        match case2.cfg(0) {
            0 => run_scope(&case2, &o2),
            1 => run_select_join(&case2, &o2),
            _ => run_cqueue_loop(&case2, &o2),
        }
        running_when_left
    });
    if fault == 2 {
        sleep_ns(case.cfg(2).max(0) as u64);
        o.unfinished_at_fault.store(o.running.load(Ordering::SeqCst) + 1, Ordering::SeqCst);
        owner.cancel();
    }
    let end = owner.join();
    // children that outlive their scope keep running for a while: give them (virtual) time so
    // that a violation becomes visible as a dead-frame access instead of going unnoticed
    let still_running = o.running.load(Ordering::SeqCst);
    sleep_ns(50_000_000);
    crate::child::settle();

    let child_panics: Vec<usize> = case.actors.iter().enumerate().filter(|(_, a)| a.role != 0 && a.ops.iter().any(|s| s.0 == PANIC)).map(|(i, _)| i).collect();
    if still_running > 0 {
        out.fail("scope-left-while-children-running", format!("{still_running} children still running when the owner had ended ({})", end.kind()));
    }
    if o.after_death.load(Ordering::SeqCst) > 0 {
        out.fail("child-ran-on-dead-frame", format!("{} accesses after the borrowed frame was dropped; owner {}", o.after_death.load(Ordering::SeqCst), end.kind()));
    }
    match &end {
        End::Ok(_) => {
            if fault == 1 {
                out.fail("owner-panic-swallowed", String::new());
            }
            // a child's panic must reach the owner of a plain scope
            if kind == 0 && fault == 0 && !child_panics.is_empty() {
                out.fail("child-panic-not-propagated", format!("children {child_panics:?} panicked, the owner ended normally"));
            }
        }
        End::Cancel => {
            if fault != 2 {
                out.fail("owner-cancelled-without-cancel", String::new());
            }
        }
        End::Panic(s) => {
            let from_child = s.starts_with("mv-expected-panic-child-");
            let ok = (fault == 1 && s == "mv-expected-panic-owner") || (from_child && !child_panics.is_empty());
            if !ok {
                out.fail("owner-ended-with-unexpected-panic", s.clone());
            }
        }
    }
    let pre = sched::preempts() > 0;
    let hit = o.unfinished_at_fault.load(Ordering::SeqCst) > 1 || (kind == 1 && o.unfinished_at_fault.load(Ordering::SeqCst) > 0);
    out.flag(match kind {
        0 => "coroutine_scope",
        1 => "join_inside_select_arm",
        _ => "cqueue_scope_loop",
    });
    out.flag(match fault {
        0 => "no_owner_fault",
        1 => "owner_panics",
        _ => "owner_cancelled",
    });
    out.flag_if(hit, "fault_while_children_unfinished");
    out.flag_if(!child_panics.is_empty(), "child_panics");
    out.flag_if(case.actors.iter().any(|a| a.role == 2), "nested_scope");
    out.flag_if(pre, "preempted");
    out.flag_if(owner_ctx == TH, "thread_owner");
    out.nontrivial = hit;
    out.num("children_finished", o.finished.load(Ordering::SeqCst) as i64);
    out
}

pub fn strategy(g: &GenCfg) -> BoxedStrategy<Case> {
    let g2 = g.clone();
    let step = |allow_panic: bool| {
        if allow_panic {
            prop_oneof![3 => Just(Op(YIELD, 0, 0)), 3 => (1u32..600_000).prop_map(|ns| Op(SLEEP, ns, 0)), 1 => (1u32..2_000_000).prop_map(|ns| Op(PARKTO, ns, 0)), 1 => Just(Op(PANIC, 0, 0))].boxed()
        } else {
            prop_oneof![3 => Just(Op(YIELD, 0, 0)), 3 => (1u32..600_000).prop_map(|ns| Op(SLEEP, ns, 0)), 1 => (1u32..2_000_000).prop_map(|ns| Op(PARKTO, ns, 0))].boxed()
        }
    };
    (prop_oneof![4 => Just(0i64), 2 => Just(1i64), 2 => Just(2i64)], prop_oneof![2 => Just(0i64), 2 => Just(1i64), 3 => Just(2i64)], 0i64..1_500_000, (0i64..5, prop_oneof![2 => Just(0i64), 1 => 1i64..5]), 0u8..2)
        .prop_flat_map(move |(kind, fault, delay, (polls, explicit), octx)| {
            let allow_panic = kind == 0 && fault == 0;
            let child = (proptest::collection::vec(step(allow_panic), 1..=6), proptest::collection::vec(proptest::collection::vec(step(false), 1..=4), 0..=2), any::<bool>());
            (Just((kind, fault, delay, polls, explicit, octx)), proptest::collection::vec(child, 1..=4), gen::config(&g2), gen::schedule(&g2, false))
        })
        .prop_map(|((kind, fault, delay, polls, explicit, octx), kids, (workers, pool, feat), sched)| {
            let mut actors = vec![Actor { ctx: octx, role: 0, ops: vec![] }];
            for (mut steps, grand, nest) in kids {
                // nothing runs after a panic
                if let Some(p) = steps.iter().position(|s| s.0 == PANIC) {
                    steps.truncate(p + 1);
                }
                actors.push(Actor { ctx: CO, role: 1, ops: steps });
                if kind == 0 && nest {
                    for gsteps in grand {
                        actors.push(Actor { ctx: CO, role: 2, ops: gsteps });
                    }
                }
            }
            // the select form cancels an arm: the owner itself has no fault there
            let fault = if kind == 1 { 0 } else { fault };
            Case { fam: "scope".into(), workers, pool, feat, cfg: vec![kind, fault, delay, polls, if kind == 0 { explicit } else { 0 }], actors, sched, weak: 0 }
        })
        .boxed()
}
