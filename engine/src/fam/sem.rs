//! `sem` family (C10): Semphore permit conservation and sufficiency, SyncFlag one-way latch
//!
//! cfg[0] = 0 semaphore / 1 sync flag; cfg[1] = initial value
//! actors role 0 = user, role 9 = canceller
use crate::case::{Actor, Case, Op, Outcome};
use crate::fam::mutex::{cancel_targets, canceller_strategy, spawn_cancellers};
use crate::gen::{self, GenCfg};
use crate::sched;
use crate::util::*;
use may::sync::{Semphore, SyncFlag};
use proptest::prelude::*;
use std::sync::atomic::{AtomicUsize, Ordering};
use std::sync::Arc;
use std::time::Duration;

pub const WAIT: u8 = 0;
pub const WAIT_TO: u8 = 1; // arg ns
pub const TRY: u8 = 2;
pub const POST: u8 = 3; // semaphore: post, flag: fire
pub const YIELD: u8 = 4;
pub const SLEEP: u8 = 5; // arg ns
pub const IS_FIRED: u8 = 6;

const GOT: i64 = 0;
const NOT: i64 = 1;

pub fn opname(op: u8) -> &'static str {
    match op {
        WAIT => "wait",
        WAIT_TO => "wait_timeout",
        TRY => "try_wait",
        POST => "post/fire",
        YIELD => "yield",
        SLEEP => "sleep",
        IS_FIRED => "is_fired",
        20 => "cancel",
        _ => "?",
    }
}

pub fn run(case: &Case) -> Outcome {
    let mut out = Outcome::new();
    let is_flag = case.cfg(0) == 1;
    let init = case.cfg(1) as usize;
    let sem = Arc::new(Semphore::new(init));
    let flag = Arc::new(SyncFlag::new());
    let succ = Arc::new(AtomicUsize::new(0));
    let posts_started = Arc::new(AtomicUsize::new(0));
    let over = Arc::new(AtomicUsize::new(0));
    let log = Log::new();
    let desc: Vec<String> = case
        .actors
        .iter()
        .map(|a| format!("{}.{}/{}", if is_flag { "flag" } else { "sem" }, if a.role == 9 { "canceller" } else { "user" }, ctx_name(a.ctx)))
        .collect();
    let states = States::install(desc, opname);
    let mut handles = vec![];
    let mut cos = vec![];
    for (ai, a) in case.actors.iter().enumerate() {
        if a.role == 9 {
            cos.push(None);
            continue;
        }
        let (sem, flag, succ, ps, over, log, states) = (sem.clone(), flag.clone(), succ.clone(), posts_started.clone(), over.clone(), log.clone(), states.clone());
        let ops = a.ops.clone();
        let h = spawn(a.ctx, "user", move || {
            let _dg = DoneGuard(&states, ai);
            for (i, op) in ops.iter().enumerate() {
                states.enter(ai, i, op.0);
                match op.0 {
                    WAIT | WAIT_TO | TRY => {
                        let c = log.call(ai, i, op.0);
                        let ok = if is_flag {
                            match op.0 {
                                WAIT => {
                                    flag.wait();
                                    true
                                }
                                WAIT_TO => flag.wait_timeout(Duration::from_nanos(op.1 as u64)),
                                _ => flag.is_fired(),
                            }
                        } else {
                            match op.0 {
                                WAIT => {
                                    sem.wait();
                                    true
                                }
                                WAIT_TO => sem.wait_timeout(Duration::from_nanos(op.1 as u64)),
                                _ => sem.try_wait(),
                            }
                        };
                        if ok && !is_flag {
                            // never more successes than permits made available so far
                            let s = succ.fetch_add(1, Ordering::SeqCst) + 1;
                            if s > init + ps.load(Ordering::SeqCst) {
                                over.fetch_add(1, Ordering::SeqCst);
                            }
                        }
                        log.ret(c, if ok { GOT } else { NOT }, 0);
                    }
                    POST => {
                        let c = log.call(ai, i, POST);
                        ps.fetch_add(1, Ordering::SeqCst);
                        if is_flag {
                            flag.fire();
                        } else {
                            sem.post();
                        }
                        log.ret(c, GOT, 0);
                    }
                    IS_FIRED => {
                        let c = log.call(ai, i, IS_FIRED);
                        let f = flag.is_fired();
                        log.ret(c, if f { GOT } else { NOT }, 0);
                    }
                    YIELD => pause(),
                    SLEEP => sleep_ns(op.1 as u64),
                    _ => {}
                }
                states.leave(ai, i);
            }
        });
        cos.push(h.coroutine().cloned());
        handles.push((ai, h));
    }
    let cancellers = spawn_cancellers(case, &cos);
    let targets = cancel_targets(case);
    let mut cancelled = 0;
    for (ai, h) in handles {
        match h.join() {
            End::Ok(()) => {}
            End::Cancel => {
                cancelled += 1;
                if !targets.contains(&ai) {
                    out.fail("cancel-observed-by-uncancelled-actor", format!("actor {ai}"));
                }
            }
            End::Panic(s) => out.fail("actor-panicked", format!("actor {ai}: {s}")),
        }
    }
    for h in cancellers {
        let _ = h.join();
    }
    crate::child::settle();

    // ---------------- oracle ----------------
    let obs = log.take();
    let posts = obs.iter().filter(|o| o.op == POST).count();
    if is_flag {
        // one-way latch: after fire() has returned every wait that starts later returns true,
        // is_fired never goes back; a true answer needs a fire that had at least begun
        let first_fire_ret = obs.iter().filter(|o| o.op == POST).map(|o| o.r).min();
        let first_fire_call = obs.iter().filter(|o| o.op == POST).map(|o| o.c).min();
        for o in obs.iter().filter(|o| matches!(o.op, WAIT | WAIT_TO | TRY | IS_FIRED)) {
            if let Some(fr) = first_fire_ret {
                if o.c > fr && o.res != GOT {
                    out.fail(&format!("flag-unfired-after-fire:{}", opname(o.op)), format!("actor {} op {}", o.actor, o.idx));
                }
            }
            if o.res == GOT && !matches!(first_fire_call, Some(fc) if fc < o.r) {
                out.fail(&format!("flag-true-without-fire:{}", opname(o.op)), format!("actor {} op {}", o.actor, o.idx));
            }
            if o.op == WAIT_TO && o.res == NOT {
                let d = case.actors[o.actor].ops[o.idx].1 as u64;
                if o.vr - o.vc < d {
                    out.fail("flag-timeout-early", format!("elapsed {} d {d}", o.vr - o.vc));
                }
            }
        }
    } else {
        if over.load(Ordering::SeqCst) > 0 {
            out.fail("more-successes-than-permits", String::new());
        }
        let s = succ.load(Ordering::SeqCst);
        let v = sem.get_value();
        // all calls have returned (or were cancelled): value = init + posts - successes
        if v + s != init + posts {
            out.fail(
                if v + s < init + posts { "permit-lost" } else { "permit-duplicated" },
                format!("value {v} + successes {s} != init {init} + posts {posts}; cancelled {cancelled}"),
            );
        }
        for o in obs.iter().filter(|o| o.op == WAIT_TO && o.res == NOT) {
            let d = case.actors[o.actor].ops[o.idx].1 as u64;
            if o.vr - o.vc < d {
                out.fail("sem-timeout-early", format!("elapsed {} d {d}", o.vr - o.vc));
            }
        }
    }
    let waits: Vec<&Obs> = obs.iter().filter(|o| matches!(o.op, WAIT | WAIT_TO)).collect();
    let post_overlap = obs.iter().filter(|o| o.op == POST).any(|p| waits.iter().any(|w| overlaps(p, w)));
    let timed_race = obs.iter().filter(|o| o.op == POST).any(|p| waits.iter().any(|w| w.op == WAIT_TO && overlaps(p, w) && w.res == NOT));
    let pre = sched::preempts() > 0;
    out.flag_if(post_overlap, "post_overlaps_wait");
    out.flag_if(timed_race, "post_overlaps_wait_that_timed_out");
    out.flag_if(cancelled > 0, "cancel_delivered");
    out.flag_if(pre, "preempted");
    out.flag(if is_flag { "syncflag" } else { "semaphore" });
    out.flag_if(obs.iter().any(|o| o.op == WAIT_TO && o.res == NOT), "timeout_seen");
    out.nontrivial = pre && post_overlap;
    out
}

pub fn strategy(g: &GenCfg) -> BoxedStrategy<Case> {
    let g2 = g.clone();
    (prop_oneof![3 => Just(0i64), 1 => Just(1i64)], 0i64..3)
        .prop_flat_map(move |(is_flag, init)| {
            // timed waits whose deadline coincides with the posts (posters sleep the same values)
            let d = prop_oneof![Just(1_000_000u32), Just(2_000_000u32), Just(3_000_000u32), 1u32..4_000_000];
            let op = prop_oneof![
                4 => Just(Op(WAIT, 0, 0)),
                3 => d.clone().prop_map(|d| Op(WAIT_TO, d, 0)),
                2 => Just(Op(TRY, 0, 0)),
                4 => Just(Op(POST, 0, 0)),
                1 => Just(Op(YIELD, 0, 0)),
                2 => d.prop_map(|d| Op(SLEEP, d, 0)),
                1 => Just(Op(IS_FIRED, 0, 0)),
            ];
            let actor = (0u8..2, proptest::collection::vec(op, 1..5)).prop_map(|(ctx, ops)| Actor { ctx, role: 0, ops });
            let g3 = g2.clone();
            proptest::collection::vec(actor, 2..=6).prop_flat_map(move |actors| {
                let n = actors.len();
                (Just(actors), canceller_strategy(n, 3_000_000), gen::config(&g3), gen::schedule(&g3, true), Just((is_flag, init)))
            })
        })
        .prop_map(|(mut actors, canc, (workers, pool, feat), sched, (is_flag, init))| {
            // sufficiency: every untimed wait must be able to finish. permits needed = all
            // waiting calls (timed and try calls consume permits too, each at most one);
            // add a final poster thread that supplies what is missing
            let waits: usize = actors.iter().map(|a: &Actor| a.ops.iter().filter(|o| matches!(o.0, WAIT | WAIT_TO | TRY)).count()).sum();
            let posts: usize = actors.iter().map(|a| a.ops.iter().filter(|o| o.0 == POST).count()).sum();
            let have = if is_flag == 1 { if posts > 0 { usize::MAX } else { 0 } } else { init as usize + posts };
            // posts of an actor may sit behind its own untimed wait: the extra poster makes the
            // program deadlock free by construction whatever the order
            let missing = if is_flag == 1 { 1 } else { waits.saturating_sub(0).max(1) };
            let _ = have;
            let mut ops = vec![Op(SLEEP, 1_000, 0)];
            for _ in 0..missing {
                ops.push(Op(POST, 0, 0));
            }
            actors.push(Actor { ctx: TH, role: 0, ops });
            if let Some(c) = canc {
                actors.push(c);
            }
            Case { fam: "sem".into(), workers, pool, feat, cfg: vec![is_flag, init], actors, sched, weak: 0 }
        })
        .boxed()
}
