//! `park` family (C02): park/unpark never loses a wake-up
//!
//! role 0 = parker: cfg per actor in ops[0] = Op(kind, rounds, long_timeout?)
//!   kind 0: coroutine::park / park_timeout(1h) (coroutine only)
//!   kind 1: fresh Blocker per round, Blocker::park(None | Some(1h)) (thread or coroutine)
//! cfg[0] = number of trivial coroutines spawned and joined before the program (run queue offset)
//! role 1 = unparker: ops[0] = Op(U, parker index, 0), ops[1..] = per round Op(N, count, delay ns)
use crate::case::{Actor, Case, Op, Outcome};
use crate::gen::{self, GenCfg};
use crate::sched;
use crate::util::*;
use may::sync::Blocker;
use proptest::prelude::*;
use std::sync::atomic::{AtomicUsize, Ordering};
use std::sync::Arc;
use std::time::Duration;

pub const K_CO: u8 = 0;
pub const K_BLOCKER: u8 = 1;
pub const U: u8 = 10;
pub const N: u8 = 11;
const HOUR: Duration = Duration::from_secs(3600);

pub fn opname(op: u8) -> &'static str {
    match op {
        K_CO => "coroutine.park",
        K_BLOCKER => "Blocker.park",
        U => "unpark",
        N => "unpark",
        _ => "?",
    }
}

struct Slot {
    /// number of parks that have returned (round counter)
    returned: AtomicUsize,
    /// the parker's handle / the blocker of the current round
    co: std::sync::Mutex<Option<may::coroutine::Coroutine>>,
    blocker: std::sync::Mutex<Option<(usize, Arc<Blocker>)>>,
}

pub fn run(case: &Case) -> Outcome {
    let mut out = Outcome::new();
    let log = Log::new();
    let desc: Vec<String> = case
        .actors
        .iter()
        .map(|a| format!("{}/{}", if a.role == 0 { "parker" } else { "unparker" }, ctx_name(if a.role == 0 && a.ops[0].0 == K_CO { CO } else { a.ctx })))
        .collect();
    let states = States::install(desc, opname);
    // cfg[0]: that many trivial coroutines are spawned and joined first, so that the global
    // run queues (64-slot block queues) stand at a generated position when the program
    // starts - two wake-ups from threads then straddle a block boundary now and then
    for _ in 0..case.cfg(0).clamp(0, 200) {
        let h = unsafe { may::coroutine::spawn(|| {}) };
        let _ = h.join();
    }
    let slots: Arc<Vec<Slot>> = Arc::new(
        case.actors
            .iter()
            .map(|_| Slot { returned: AtomicUsize::new(0), co: std::sync::Mutex::new(None), blocker: std::sync::Mutex::new(None) })
            .collect(),
    );
    let mut hs = vec![];
    for (ai, a) in case.actors.iter().enumerate() {
        let (log, states, slots) = (log.clone(), states.clone(), slots.clone());
        if a.role == 0 {
            let kind = a.ops[0].0;
            let rounds = a.ops[0].1 as usize;
            let long_to = a.ops[0].2 == 1;
            let ctx = if kind == K_CO { CO } else { a.ctx };
            hs.push(spawn(ctx, "parker", move || {
                let _dg = DoneGuard(&states, ai);
                if kind == K_CO {
                    *slots[ai].co.lock().unwrap() = Some(may::coroutine::current());
                }
                for r in 0..rounds {
                    states.enter(ai, r, kind);
                    let res;
                    if kind == K_CO {
                        let c = log.call(ai, r, kind);
                        if long_to {
                            may::coroutine::park_timeout(HOUR);
                        } else {
                            may::coroutine::park();
                        }
                        res = 0;
                        log.ret(c, res, 0);
                    } else {
                        let b = Blocker::current();
                        // the previous round's blocker must be dropped outside of the (un-hooked)
                        // slot lock: Drop for Park contains schedule points
                        let old = slots[ai].blocker.lock().unwrap().replace((r, b.clone()));
                        drop(old);
                        let c = log.call(ai, r, kind);
                        res = match b.park(if long_to { Some(HOUR) } else { None }) {
                            Ok(()) => 0,
                            Err(may::coroutine::ParkError::Timeout) => 1,
                            Err(may::coroutine::ParkError::Canceled) => 2,
                        };
                        log.ret(c, res, 0);
                    }
                    slots[ai].returned.store(r + 1, Ordering::SeqCst);
                    states.leave(ai, r);
                }
            }));
        } else {
            let target = a.ops[0].1 as usize;
            let plan: Vec<(u32, u32)> = a.ops[1..].iter().map(|o| (o.1, o.2)).collect();
            let tkind = case.actors[target].ops[0].0;
            hs.push(spawn(a.ctx, "unparker", move || {
                let _dg = DoneGuard(&states, ai);
                for (r, (count, delay)) in plan.iter().enumerate() {
                    states.enter(ai, r, U);
                    // after the previous park of the parker has returned ...
                    let ready = poll_until(
                        || {
                            slots[target].returned.load(Ordering::SeqCst) >= r
                                && if tkind == K_CO {
                                    slots[target].co.lock().unwrap().is_some()
                                } else {
                                    matches!(&*slots[target].blocker.lock().unwrap(), Some((rr, _)) if *rr >= r)
                                }
                        },
                        2_000_000_000,
                    );
                    if !ready {
                        // the parker is stuck in an earlier round: the detector will say so
                        return;
                    }
                    if *delay > 0 {
                        sleep_ns(*delay as u64);
                    }
                    for _ in 0..*count {
                        let c = log.call(ai, r, U);
                        if tkind == K_CO {
                            let co = slots[target].co.lock().unwrap().clone().unwrap();
                            co.unpark();
                        } else {
                            // the blocker of round r, or a later one if the parker went on already
                            let b = slots[target].blocker.lock().unwrap().clone().unwrap();
                            if b.0 == r {
                                b.1.unpark();
                            }
                            log.ret(c, b.0 as i64, target as i64);
                            continue;
                        }
                        log.ret(c, r as i64, target as i64);
                    }
                    states.leave(ai, r);
                }
            }));
        }
    }
    for (i, h) in hs.into_iter().enumerate() {
        let e = h.join();
        if !e.is_ok() {
            out.fail("actor-ended-abnormally", format!("actor {i} {}", e.kind()));
        }
    }
    crate::child::settle();
    let obs = log.take();
    let mut before = false;
    let mut during = false;
    for o in obs.iter().filter(|o| o.op == K_CO || o.op == K_BLOCKER) {
        let a = &case.actors[o.actor];
        let long_to = a.ops[0].2 == 1;
        let el = o.vr - o.vc;
        // every round gets at least one unpark within microseconds..milliseconds: a park that
        // lasted an hour of virtual time was only ended by its time-out = lost wake-up
        if long_to && el >= 3_600_000_000_000 {
            out.fail(&format!("wakeup-lost-returned-by-timeout:{}", opname(o.op)), format!("parker {} round {}", o.actor, o.idx));
        }
        if o.op == K_BLOCKER {
            if o.res == 1 && el < 3_600_000_000_000 {
                out.fail("blocker-timeout-before-deadline", format!("parker {} round {} elapsed {el}", o.actor, o.idx));
            }
            if o.res == 2 {
                out.fail("blocker-canceled-without-cancel", format!("parker {} round {}", o.actor, o.idx));
            }
            if o.res == 0 {
                // Ok needs an unpark on this round's blocker that had begun before the return
                let any = obs.iter().any(|u| u.op == U && u.val == o.actor as i64 && u.res == o.idx as i64 && u.c < o.r);
                if !any {
                    out.fail("blocker-ok-without-unpark", format!("parker {} round {}", o.actor, o.idx));
                }
            }
        }
        for u in obs.iter().filter(|u| u.op == U && u.val == o.actor as i64) {
            if u.r < o.c && (o.op == K_CO || u.res == o.idx as i64) {
                before = true;
            }
            if overlaps(u, o) {
                during = true;
            }
        }
    }
    let pre = sched::preempts() > 0;
    out.flag_if(before, "unpark_before_park");
    out.flag_if(during, "unpark_during_park");
    out.flag_if(pre, "preempted");
    out.flag_if(sched::preempted_in("park.rs"), "preempted_in_park_rs");
    out.flag_if(case.actors.iter().any(|a| a.role == 0 && a.ops[0].2 == 1), "long_timeout");
    out.flag_if(case.actors.iter().any(|a| a.role == 0 && a.ops[0].0 == K_BLOCKER && a.ctx == TH), "thread_parker");
    out.nontrivial = pre && (before || during) && (sched::preempted_in("park.rs") || sched::preempted_in("blocking.rs") || before);
    out
}

pub fn strategy(g: &GenCfg) -> BoxedStrategy<Case> {
    let g2 = g.clone();
    let parker = (0u8..2, 0u8..2, 1u32..=6, 0u32..2).prop_map(|(kind, ctx, rounds, lt)| Actor { ctx, role: 0, ops: vec![Op(kind, rounds, lt)] });
    proptest::collection::vec(parker, 1..=3)
        .prop_flat_map(move |parkers| {
            let np = parkers.len();
            let rounds: Vec<u32> = parkers.iter().map(|p| p.ops[0].1).collect();
            // every parker gets at least one unparker; up to 3 unparkers in total beyond that
            let extra = proptest::collection::vec(0..np, 0..=2);
            let g3 = g2.clone();
            (Just(parkers), extra, Just(rounds)).prop_flat_map(move |(parkers, extra, rounds)| {
                let np = parkers.len();
                let targets: Vec<usize> = (0..np).chain(extra.into_iter()).collect();
                let plans: Vec<_> = targets
                    .iter()
                    .map(|&t| {
                        let r = rounds[t] as usize;
                        (Just(t), 0u8..2, proptest::collection::vec((1u32..=3, prop_oneof![3 => Just(0u32), 2 => 0u32..2_000, 1 => 0u32..200_000]), r))
                    })
                    .collect();
                let offset = prop_oneof![2 => Just(0i64), 1 => 0i64..200, 3 => (1i64..4, 0i64..12).prop_map(|(b, o)| b * 64 - 12 + o)];
                (Just(parkers), plans, gen::config(&g3), gen::schedule(&g3, false), offset)
            })
        })
        .prop_map(|(mut actors, plans, (workers, pool, feat), sched, offset)| {
            for (t, ctx, per_round) in plans {
                let mut ops = vec![Op(U, t as u32, 0)];
                for (count, delay) in per_round {
                    ops.push(Op(N, count, delay));
                }
                actors.push(Actor { ctx, role: 1, ops });
            }
            Case { fam: "park".into(), workers, pool, feat, cfg: vec![offset], actors, sched, weak: 0 }
        })
        .boxed()
}
