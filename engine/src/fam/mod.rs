//! scenario families: generator + interpreter + oracle each (DESIGN.md 5)
use crate::case::{Case, Outcome};
use crate::gen::GenCfg;
use proptest::prelude::*;

pub mod cancel;
pub mod chan;
pub mod condvar;
pub mod cqueue;
pub mod local;
pub mod mutex;
pub mod net;
pub mod panicf;
pub mod queues;
pub mod park;
pub mod rwlock;
pub mod scope;
pub mod sem;
pub mod spawn;
pub mod timed;

pub struct Family {
    pub name: &'static str,
    /// does the scenario need the may runtime (workers, timer thread)?
    pub runtime: bool,
    pub max_steps: u64,
    pub run: fn(&Case) -> Outcome,
}

pub const FAMILIES: &[Family] = &[
    Family { name: "chan", runtime: true, max_steps: 300_000, run: chan::run },
    Family { name: "timed", runtime: true, max_steps: 300_000, run: timed::run },
    Family { name: "mutex", runtime: true, max_steps: 300_000, run: mutex::run },
    Family { name: "sem", runtime: true, max_steps: 300_000, run: sem::run },
    Family { name: "condvar", runtime: true, max_steps: 300_000, run: condvar::run },
    Family { name: "rwlock", runtime: true, max_steps: 300_000, run: rwlock::run },
    Family { name: "cancel", runtime: true, max_steps: 300_000, run: cancel::run },
    Family { name: "park", runtime: true, max_steps: 300_000, run: park::run },
    Family { name: "scope", runtime: true, max_steps: 300_000, run: scope::run },
    Family { name: "cqueue", runtime: true, max_steps: 300_000, run: cqueue::run },
    Family { name: "panic", runtime: true, max_steps: 400_000, run: panicf::run },
    Family { name: "local", runtime: true, max_steps: 400_000, run: local::run },
    Family { name: "net", runtime: true, max_steps: 600_000, run: net::run_net },
    Family { name: "netto", runtime: true, max_steps: 600_000, run: net::run_netto },
    Family { name: "q_mpsc", runtime: false, max_steps: 400_000, run: queues::run_fifo },
    Family { name: "q_spmc", runtime: false, max_steps: 400_000, run: queues::run_spmc },
    Family { name: "q_list", runtime: false, max_steps: 400_000, run: queues::run_list },
    Family { name: "spawn", runtime: true, max_steps: 400_000, run: spawn::run },
    Family { name: "sbtest", runtime: true, max_steps: 100_000, run: run_sbtest },
];

pub fn lookup(name: &str) -> Option<&'static Family> {
    FAMILIES.iter().find(|f| f.name == name)
}

/// one search unit of a property: a family with a generator bias and its share of the cases
pub struct Unit {
    pub fam: &'static str,
    pub label: &'static str,
    pub share: u32,
    pub strategy: fn(&GenCfg) -> BoxedStrategy<Case>,
}

pub struct Prop {
    pub id: &'static str,
    pub quick: u32,
    pub thorough: u32,
    pub rule: &'static str,
    pub units: &'static [Unit],
}

fn chan_c06(g: &GenCfg) -> BoxedStrategy<Case> {
    chan::strategy(g, 0)
}
fn chan_c07(g: &GenCfg) -> BoxedStrategy<Case> {
    chan::strategy(g, 1)
}

pub const PROPS: &[Prop] = &[
    Prop {
        id: "C17",
        quick: 12000,
        thorough: 100_000,
        rule: "net family on real kernel sockets under the deterministic scheduler: UnixStream::pair, UnixListener + connect, loopback TcpListener + connect (accept and connect inside the actors), optionally through split() halves, 1-3 connections with payloads of 0-512 KiB written in chunks of 1 B-64 KiB and read with buffers of 1 B-128 KiB (at most ~300 operations per side) until end of stream; UdpSocket and UnixDatagram with 1-19 datagrams of 1-3 KB; writer/reader each a thread (proxy coroutine path) or a coroutine; 1-3 workers; generated schedule. Non-trivial = at least one pre-emption AND (a writer blocked on a full socket buffer OR datagram transport OR a pre-emption inside src/io/sys/unix). Distinct = distinct hash of (program, config, schedule).",
        units: &[
            Unit { fam: "net", label: "net", share: 3, strategy: net::strategy_net },
            // "complete ... for every timing": reads with time-outs racing the data (the netto
            // family's byte conservation: written = returned by the reads + left in the socket)
            Unit { fam: "netto", label: "timed-reads", share: 1, strategy: net::strategy_netto },
        ],
    },
    Prop {
        id: "C18",
        quick: 12000,
        thorough: 100_000,
        rule: "netto family on real kernel sockets: one connection (UnixStream::pair, loopback TCP, or connected UDP) whose reader (thread or coroutine) performs 1-4 reads with generated read time-outs (100 us - 3 s, or none) while the peer sends one byte per read never / early / within a millisecond of the deadline / late, measured from the moment the read began; stale-timer pattern = a read that completes early followed by a longer or untimed one; optionally the reader coroutine is cancelled after a generated delay; 0-2 bystander connections transfer data meanwhile; 1/4 of the cases with stall faults. Non-trivial = at least one pre-emption AND (the previous operation's deadline fell inside the next operation, or data within 1 ms of a deadline, or the reader was cancelled, or both a time-out and a delivery were observed). Distinct = distinct hash of (program, config, schedule).",
        units: &[Unit { fam: "netto", label: "netto", share: 1, strategy: net::strategy_netto }],
    },
    Prop {
        id: "C03",
        quick: 16000,
        thorough: 400_000,
        rule: "q_mpsc family on may_queue directly (no runtime): the mpsc block queue with 1-3 producer threads or the spsc block queue with one, 0-40 pushes each, a consumer issuing up to 50 operations out of pop / bulk_pop / peek / len / is_empty, a start offset of 0-130 values pushed and popped beforehand (mostly just below a block boundary), and a final phase that drains the queue or drops it with values left inside; the schedule points are the queue's own atomic operations. Non-trivial = a pop-type operation overlapped a push AND the run crossed a block boundary AND at least one pre-emption. Distinct = distinct hash of (program, schedule).",
        units: &[Unit { fam: "q_mpsc", label: "fifo", share: 1, strategy: queues::strategy_fifo }],
    },
    Prop {
        id: "C04",
        quick: 16000,
        thorough: 400_000,
        rule: "q_spmc family on may_queue::spmc directly: the owner runs a generated push / local pop sequence (0-100 operations) and then keeps servicing (filler pushes and pops) until 1-3 stealer threads have finished their steal_into / is_empty sequences (Local/Steal API) or their pop / bulk_pop sequences (raw Queue API); start offset 0-70 mostly just below a block boundary; the child uses a LIFO size-class allocator so that a freed block is re-allocated at the same address (ABA by construction). Non-trivial = at least one successful steal AND a block boundary crossed AND at least one pre-emption. Distinct = distinct hash of (program, schedule).",
        units: &[Unit { fam: "q_spmc", label: "spmc", share: 1, strategy: queues::strategy_spmc }],
    },
    Prop {
        id: "C19",
        quick: 16000,
        thorough: 400_000,
        rule: "q_list family on may_queue::mpsc_list_v1 directly: 1-3 producer threads push 0-12 entries each and hand the entry handles to the consumer, which runs up to 40 operations out of pop / pop_if(pred) / peek / remove(handle of a live or of an already consumed entry) / is_empty, as the timer thread does. Non-trivial = at least one pre-emption AND a remove overlapped a push. Distinct = distinct hash of (program, schedule).",
        units: &[Unit { fam: "q_list", label: "list", share: 1, strategy: queues::strategy_list }],
    },
    Prop {
        id: "C15",
        quick: 12000,
        thorough: 200_000,
        rule: "local family: three coroutine_local! keys holding drop-counted values with interior mutability; 2-10 coroutines run in waves of 1-3 on a pool of 1-2 stacks (each wave is joined before the next, so stacks are recycled) plus 0-2 threads using the same keys; every coroutine starts with a probing blocking call (fresh Blocker parked for 1 h and unparked, coroutine::park_timeout(1h) and unparked, sleep, or none), then get/set/yield/sleep steps, and ends normally, by a panic, cancelled while parked, or with a park_timeout / Blocker park that expires as its last action; generated schedule. Non-trivial = at least one pre-emption AND >= 2 (coroutine, key) pairs used AND a stack was reused after an abnormal end. Distinct = distinct hash of (program, config, schedule).",
        units: &[Unit { fam: "local", label: "local", share: 1, strategy: local::strategy }],
    },
    Prop {
        id: "C13",
        quick: 12000,
        thorough: 200_000,
        rule: "panic family: 3-12 coroutines on a pool of capacity 1-8 (mostly 1-2: stack reuse) with bodies of yield/sleep/Mutex sections/RwLock read and write sections that end in a value or in a panic outside any lock, while holding the Mutex, while holding the RwLock write guard, inside a scoped child, or inside a select arm; optional canceller; 0-4 later coroutines spawned after the first wave was joined; generated schedule. Non-trivial = a panic happened AND at least one pre-emption AND (later coroutines ran afterwards OR more coroutines than pooled stacks). Distinct = distinct hash of (program, config, schedule).",
        units: &[
            Unit { fam: "panic", label: "panic", share: 4, strategy: panicf::strategy },
            // "select owners re-raise it as documented": the cqueue family with its arm panics,
            // Selector::remove and the arm-panic-must-reach-the-poller oracle
            Unit { fam: "cqueue", label: "cqueue-arm-panics", share: 1, strategy: cqueue::strategy },
            // "later spawns run normally (also ones that reuse its stack)": the local family's
            // recycled stacks with panicked / cancelled / timed-out histories and fresh probes
            Unit { fam: "local", label: "stack-reuse", share: 1, strategy: local::strategy },
        ],
    },
    Prop {
        id: "C16",
        quick: 12000,
        thorough: 200_000,
        rule: "cqueue family: (a) a poller (thread or coroutine) opens a cqueue scope with 1-4 arms whose top halves are immediate / mpsc recv fed by a feeder / sleep / Semphore::wait, 1-3 events each, optionally panicking in the top or bottom half of the last event; the poller issues 1-6 polls (None or Some(d)) and Selector::remove operations and then leaves the scope; (b) the select! macro over 2-3 receiving arms whose feeders fire at generated, often nearly equal, times; generated schedule. Non-trivial = at least one pre-emption AND (a) an event was polled with >= 2 arms present / (b) two arms became ready within 3 us. Distinct = distinct hash of (program, config, schedule).",
        units: &[Unit { fam: "cqueue", label: "cqueue", share: 1, strategy: cqueue::strategy }],
    },
    Prop {
        id: "C14",
        quick: 12000,
        thorough: 200_000,
        rule: "scope family: an owner (thread or coroutine) runs coroutine::scope with 1-4 children (optionally with nested scopes and grandchildren), or join! inside a select arm of a cqueue scope (the arm is cancelled when the competing arm fires after a generated delay), or a cqueue scope with looping arms; children run 1-6 steps of yield/sleep/park_timeout and touch a frame borrowed from the owner; faults: the owner panics in the scope body after spawning, the owner is cancelled after a generated delay, a child panics; generated schedule. Non-trivial = the fault hit the owner (or the select arm) while at least one child was unfinished. Distinct = distinct hash of (program, config, schedule).",
        units: &[Unit { fam: "scope", label: "scope", share: 1, strategy: scope::strategy }],
    },
    Prop {
        id: "C01",
        quick: 12000,
        thorough: 300_000,
        rule: "spawn family: a generated spawn tree of 1-16 coroutines (spawned by the main thread, by 0-2 user threads, or by other coroutines up to depth 3; builder options none/name/custom stack size (not pooled)/id (pinned queue); pool capacity 1-8) with bodies of yield/sleep/park_timeout/shared-mutex sections/spawns, ending in a value or a panic; spawners wait with join / wait()+join / is_done() polling / cancel+join; generated schedule. Non-trivial = >= 2 coroutines AND at least one pre-emption AND at least one coroutine was resumed on a different OS thread than before. Distinct = distinct hash of (program, config, schedule).",
        units: &[Unit { fam: "spawn", label: "spawn", share: 1, strategy: spawn::strategy }],
    },
    Prop {
        id: "C02",
        quick: 12000,
        thorough: 300_000,
        rule: "park family: 1-3 parkers (coroutine::park / park_timeout(1h), or a fresh Blocker per round parked in thread or coroutine context with None / Some(1h)) over 1-6 rounds, 1-5 unparkers (thread/coroutine) that call unpark 1-3 times per round after the previous park has returned, immediately or after a generated delay; generated schedule. Non-trivial = at least one pre-emption AND an unpark completed before the park it serves began or overlapped it. Distinct = distinct hash of (program, config, schedule).",
        units: &[Unit { fam: "park", label: "park", share: 1, strategy: park::strategy }],
    },
    Prop {
        id: "C09",
        quick: 12000,
        thorough: 300_000,
        rule: "cancel family: a target coroutine owning 0-3 drop-counted stack values (optionally holding a second Mutex) runs 1-4 distinct blocking operations out of park, sleep, Mutex::lock, Semphore::wait, Condvar::wait, mpsc/mpmc recv, join, SyncFlag::wait, RwLock::write, UnixStream::read, cqueue poll; a granter issues each awaited event after a generated delay; 0-2 bystanders wait on the same primitives; a canceller cancels the target at a generated time; generated schedule. Non-trivial = at least one pre-emption AND the target ended with Cancel AND (the cancel raced with a grant, or bystanders were present, or a pre-emption happened inside park.rs / cancel.rs). Distinct = distinct hash of (program, config, schedule).",
        units: &[Unit { fam: "cancel", label: "cancel", share: 1, strategy: cancel::strategy }],
    },
    Prop {
        id: "C05",
        quick: 12000,
        thorough: 200_000,
        rule: "mutex family: 2-5 lockers (threads and coroutines mixed) with lock{0-2 schedule points inside}/try_lock/yield/sleep programs on one may::sync::Mutex, optional canceller actor cancelling coroutine lockers at generated times, generated schedule. Non-trivial = at least one pre-emption AND two lock() calls of different actors overlapped (contention). Distinct = distinct hash of (program, config, schedule). A third of the cases come from the condvar family (ticket protocol with cancellation): Mutex::lock with the cancel ignored is only reachable through the re-lock inside Condvar::wait.",
        units: &[
            Unit { fam: "mutex", label: "mutex", share: 2, strategy: mutex::strategy },
            // Mutex::lock with the cancel ignored is only reachable through Condvar::wait's re-lock
            Unit { fam: "condvar", label: "condvar-relock", share: 1, strategy: condvar::strategy },
        ],
    },
    Prop {
        id: "C10",
        quick: 12000,
        thorough: 200_000,
        rule: "sem family: Semphore::new(0..2) or SyncFlag, 2-6 users (thread/coroutine) with wait/wait_timeout(d)/try_wait/post(fire)/is_fired programs, a final poster supplying enough permits for every waiting call, optional canceller, generated schedule with stall faults. Non-trivial = at least one pre-emption AND a post overlapped a blocking wait. Distinct = distinct hash of (program, config, schedule).",
        units: &[Unit { fam: "sem", label: "sem", share: 1, strategy: sem::strategy }],
    },
    Prop {
        id: "C11",
        quick: 12000,
        thorough: 200_000,
        rule: "condvar family: (a) ticket protocol on Mutex+Condvar with wait/wait_timeout(gives up on time-out)/wait_while waiters and a notifier that grants exactly as many tickets as there are waiting calls, each followed by notify_one (the last optionally by notify_all), optional canceller; (b) Barrier(1-5) over 1-4 generations; (c) WaitGroup with 0-4 holders dropping/cloning at generated points and 1-2 waiters. Non-trivial = at least one pre-emption AND a notify overlapped a wait (a) / >= 2 parties (b) / a drop overlapped a wait (c). Distinct = distinct hash of (program, config, schedule).",
        units: &[Unit { fam: "condvar", label: "condvar", share: 1, strategy: condvar::strategy }],
    },
    Prop {
        id: "C12",
        quick: 12000,
        thorough: 200_000,
        rule: "rwlock family: 1-5 lockers (thread/coroutine) with read/write/try_read/try_write/write+panic programs (guards recovered from PoisonError with into_inner and used normally), optional canceller, generated schedule. Non-trivial = (a pre-emption AND two successful lock calls of different actors overlapped) OR a guard was obtained from a Poisoned error and dropped. Distinct = distinct hash of (program, config, schedule).",
        units: &[Unit { fam: "rwlock", label: "rwlock", share: 1, strategy: rwlock::strategy }],
    },
    Prop {
        id: "C08",
        quick: 12000,
        thorough: 300_000,
        rule: "timed family: 1-5 actors (thread/coroutine), each one timed call out of sleep, mpsc/mpmc recv_timeout, Semphore/SyncFlag/Condvar wait_timeout, cqueue poll(Some(d)), Blocker::park(Some(d)), coroutine::park_timeout; duration from {0, sub-ms, fractional ms, whole ms, seconds, hours}; an event actor issues the awaited event never / before the call / in [0,2d] / within a few us of the deadline; generated schedule, 1/3 of the cases with stall faults. Non-trivial = >= 2 timers with different intervals pending, or an event within 1 ms of the deadline, or a timer removed early (event won), or a stall fault with a pre-emption. Distinct = distinct hash of (program, config, schedule).",
        units: &[Unit { fam: "timed", label: "timed", share: 1, strategy: timed::strategy }],
    },
    Prop {
        id: "C06",
        quick: 12000,
        thorough: 300_000,
        rule: "chan family (mpsc/spsc/mpmc; 1-3 senders, 1-3 mpmc receivers, thread/coroutine endpoints, generated send/clone/drop and recv/try_recv/recv_timeout programs, generated schedule); one case in three from the generator biased to early drops of receivers (plain or aimed at the steps of a send: every value is received or dropped exactly once). Non-trivial = at least one pre-emption happened AND a send's call/return interval overlapped a blocking receive's interval. Distinct = distinct hash of (program, config, schedule).",
        units: &[Unit { fam: "chan", label: "delivery", share: 2, strategy: chan_c06 }, Unit { fam: "chan", label: "receiver-gone", share: 1, strategy: chan_c07 }],
    },
    Prop {
        id: "C07",
        quick: 12000,
        thorough: 300_000,
        rule: "chan family biased to early drops of senders and receivers, few messages, several mpmc receivers. Non-trivial = at least one pre-emption happened AND the drop of the last sender overlapped a blocking receive of >= 1 receiver (>= 2 for mpmc), or a send overlapped a blocking receive. Distinct = distinct hash of (program, config, schedule).",
        units: &[Unit { fam: "chan", label: "disconnect", share: 1, strategy: chan_c07 }],
    },
];

pub fn prop(id: &str) -> Option<&'static Prop> {
    PROPS.iter().find(|p| p.id == id)
}

/// self test of the store buffering model (no property): the store buffering litmus test on
/// two of may's shim atomics. "both-zero" must be reachable with weak = 1 and never with 0
pub fn run_sbtest(case: &Case) -> Outcome {
    use may::verif::atomic::{AtomicUsize, Ordering};
    use std::sync::Arc;
    let mut out = Outcome::new();
    let x = Arc::new((AtomicUsize::new(0), AtomicUsize::new(0)));
    let fenced = case.cfg(0) == 1;
    let (x1, x2) = (x.clone(), x.clone());
    let a = crate::sched::vspawn("a", move || {
        x1.0.store(1, if fenced { Ordering::SeqCst } else { Ordering::Release });
        x1.1.load(Ordering::Acquire)
    });
    let b = crate::sched::vspawn("b", move || {
        x2.1.store(1, if fenced { Ordering::SeqCst } else { Ordering::Release });
        x2.0.load(Ordering::Acquire)
    });
    let (r1, r2) = (a.join().ok().unwrap(), b.join().ok().unwrap());
    if r1 == 0 && r2 == 0 {
        out.fail("both-zero", String::new());
    }
    out.nontrivial = true;
    out
}
