//! scenario families: generator + interpreter + oracle each (DESIGN.md 5)
use crate::case::{Case, Outcome};
use crate::gen::GenCfg;
use proptest::prelude::*;

pub mod chan;
pub mod timed;

pub struct Family {
    pub name: &'static str,
    /// does the scenario need the may runtime (workers, timer thread)?
    pub runtime: bool,
    pub max_steps: u64,
    pub run: fn(&Case) -> Outcome,
}

pub const FAMILIES: &[Family] = &[
    Family { name: "chan", runtime: true, max_steps: 300_000, run: chan::run },
    Family { name: "timed", runtime: true, max_steps: 300_000, run: timed::run },
];

pub fn lookup(name: &str) -> Option<&'static Family> {
    FAMILIES.iter().find(|f| f.name == name)
}

/// one search unit of a property: a family with a generator bias and its share of the cases
pub struct Unit {
    pub fam: &'static str,
    pub label: &'static str,
    pub share: u32,
    pub strategy: fn(&GenCfg) -> BoxedStrategy<Case>,
}

pub struct Prop {
    pub id: &'static str,
    pub quick: u32,
    pub thorough: u32,
    pub rule: &'static str,
    pub units: &'static [Unit],
}

fn chan_c06(g: &GenCfg) -> BoxedStrategy<Case> {
    chan::strategy(g, 0)
}
fn chan_c07(g: &GenCfg) -> BoxedStrategy<Case> {
    chan::strategy(g, 1)
}

pub const PROPS: &[Prop] = &[
    Prop {
        id: "C08",
        quick: 6000,
        thorough: 300_000,
        rule: "timed family: 1-5 actors (thread/coroutine), each one timed call out of sleep, mpsc/mpmc recv_timeout, Semphore/SyncFlag/Condvar wait_timeout, cqueue poll(Some(d)), Blocker::park(Some(d)), coroutine::park_timeout; duration from {0, sub-ms, fractional ms, whole ms, seconds, hours}; an event actor issues the awaited event never / before the call / in [0,2d] / within a few us of the deadline; generated schedule, 1/3 of the cases with stall faults. Non-trivial = >= 2 timers with different intervals pending, or an event within 1 ms of the deadline, or a timer removed early (event won), or a stall fault with a pre-emption. Distinct = distinct hash of (program, config, schedule).",
        units: &[Unit { fam: "timed", label: "timed", share: 1, strategy: timed::strategy }],
    },
    Prop {
        id: "C06",
        quick: 6000,
        thorough: 300_000,
        rule: "chan family (mpsc/spsc/mpmc; 1-3 senders, 1-3 mpmc receivers, thread/coroutine endpoints, generated send/clone/drop and recv/try_recv/recv_timeout programs, generated schedule). Non-trivial = at least one pre-emption happened AND a send's call/return interval overlapped a blocking receive's interval. Distinct = distinct hash of (program, config, schedule).",
        units: &[Unit { fam: "chan", label: "delivery", share: 1, strategy: chan_c06 }],
    },
    Prop {
        id: "C07",
        quick: 6000,
        thorough: 300_000,
        rule: "chan family biased to early drops of senders and receivers, few messages, several mpmc receivers. Non-trivial = at least one pre-emption happened AND the drop of the last sender overlapped a blocking receive of >= 1 receiver (>= 2 for mpmc), or a send overlapped a blocking receive. Distinct = distinct hash of (program, config, schedule).",
        units: &[Unit { fam: "chan", label: "disconnect", share: 1, strategy: chan_c07 }],
    },
];

pub fn prop(id: &str) -> Option<&'static Prop> {
    PROPS.iter().find(|p| p.id == id)
}
