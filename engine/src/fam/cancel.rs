//! `cancel` family (C09): a target coroutine runs a sequence of blocking operations while a
//! canceller cancels it at a generated time; a granter issues the awaited events at generated
//! times; bystanders wait on the same primitives
//!
//! actor 0 = target (coroutine): ops = blocking ops (each kind at most once); cfg[0] bit0 = the
//!   target holds a second mutex all the time; cfg[1] = number of stack values it owns
//! role 1 = granter: ops[i] = (G, delay ns): sleep, then issue the event target op i waits for
//!   (plus one more for every bystander of that kind)
//! role 2 = bystander: ops = one wait on one of the shared primitives
//! role 9 = canceller
use crate::case::{Actor, Case, Op, Outcome};
use crate::fam::mutex::{canceller_strategy, spawn_cancellers};
use crate::gen::{self, GenCfg};
use crate::sched;
use crate::util::*;
use may::sync::{mpmc, mpsc, Condvar, Mutex, RwLock, Semphore, SyncFlag};
use proptest::prelude::*;
use std::io::{Read, Write};
use std::sync::atomic::{AtomicBool, AtomicU64, AtomicUsize, Ordering};
use std::sync::Arc;
use std::time::Duration;

pub const T_PARK: u8 = 0;
pub const T_SLEEP: u8 = 1; // arg ns
pub const T_LOCK: u8 = 2;
pub const T_SEM: u8 = 3;
pub const T_CV: u8 = 4;
pub const T_MPSC: u8 = 5;
pub const T_MPMC: u8 = 6;
pub const T_JOIN: u8 = 7; // arg ns the child sleeps
pub const T_FLAG: u8 = 8;
pub const T_RWWRITE: u8 = 9;
pub const T_READ: u8 = 10; // UnixStream read
pub const T_SELECT: u8 = 11;
pub const T_YIELD: u8 = 12;
pub const T_RWREAD: u8 = 13; // RwLock read (blocks behind the granter's write guard)
pub const G: u8 = 30;
pub const PRE: u8 = 31; // waiting for the granter to take its locks

pub fn opname(op: u8) -> &'static str {
    match op {
        T_PARK => "park",
        T_SLEEP => "sleep",
        T_LOCK => "Mutex.lock",
        T_SEM => "Semphore.wait",
        T_CV => "Condvar.wait",
        T_MPSC => "mpsc.recv",
        T_MPMC => "mpmc.recv",
        T_JOIN => "join",
        T_FLAG => "SyncFlag.wait",
        T_RWWRITE => "RwLock.write",
        T_READ => "UnixStream.read",
        T_RWREAD => "RwLock.read",
        T_SELECT => "cqueue.poll",
        T_YIELD => "yield",
        G => "grant",
        PRE => "start-gate",
        20 => "cancel",
        _ => "?",
    }
}

struct Shared {
    m1: Mutex<usize>,
    sem: Semphore,
    cv: (Mutex<usize>, Condvar),
    flag: SyncFlag,
    rw: RwLock<usize>,
    held: Mutex<usize>,
    gate: AtomicBool,
    sem_succ: AtomicUsize,
    cv_served: AtomicUsize,
    mpmc_got: AtomicUsize,
    occ_m1: AtomicUsize,
    occ_rw: AtomicUsize,
    excl_bad: AtomicUsize,
    /// the granter withheld a grant until the target had ended, and the target never ended
    withheld_gave_up: AtomicBool,
}

struct Occ<'a>(&'a AtomicUsize);
impl Drop for Occ<'_> {
    fn drop(&mut self) {
        self.0.fetch_sub(1, Ordering::SeqCst);
    }
}

/// wait until the granter has taken its locks. never poll with yield_now: a coroutine that
/// keeps yielding is re-queued on its worker's local queue, which is served before the
/// global queue - the granter (spawned from the main thread) would starve
fn gate_wait(sh: &Shared) {
    poll_until(|| sh.gate.load(Ordering::SeqCst), 10_000_000_000);
}

fn wait_ticket(sh: &Shared) {
    let (m, cv) = &sh.cv;
    let mut g = m.lock().unwrap();
    while *g == 0 {
        g = cv.wait(g).unwrap();
    }
    *g -= 1;
    sh.cv_served.fetch_add(1, Ordering::SeqCst);
}

fn lock_section(sh: &Shared) {
    let mut g = sh.m1.lock().unwrap();
    if sh.occ_m1.fetch_add(1, Ordering::SeqCst) != 0 {
        sh.excl_bad.fetch_add(1, Ordering::SeqCst);
    }
    let o = Occ(&sh.occ_m1);
    *g += 1;
    drop(o);
    drop(g);
}

fn rw_section(sh: &Shared) {
    let mut g = sh.rw.write().unwrap();
    if sh.occ_rw.fetch_add(1, Ordering::SeqCst) != 0 {
        sh.excl_bad.fetch_add(1, Ordering::SeqCst);
    }
    let o = Occ(&sh.occ_rw);
    *g += 1;
    drop(o);
    drop(g);
}

fn rw_read_section(sh: &Shared) {
    let g = sh.rw.read().unwrap();
    // no writer (the granter counts as one while it holds its write guard) may be inside
    if sh.occ_rw.load(Ordering::SeqCst) != 0 {
        sh.excl_bad.fetch_add(1, Ordering::SeqCst);
    }
    let _ = *g;
    drop(g);
}

pub fn run(case: &Case) -> Outcome {
    let mut out = Outcome::new();
    let hold_second = case.cfg(0) & 1 == 1;
    let n_vals = case.cfg(1).clamp(0, 3) as usize;
    let sh = Arc::new(Shared {
        m1: Mutex::new(0),
        sem: Semphore::new(0),
        cv: (Mutex::new(0), Condvar::new()),
        flag: SyncFlag::new(),
        rw: RwLock::new(0),
        held: Mutex::new(0),
        gate: AtomicBool::new(false),
        sem_succ: AtomicUsize::new(0),
        cv_served: AtomicUsize::new(0),
        mpmc_got: AtomicUsize::new(0),
        occ_m1: AtomicUsize::new(0),
        occ_rw: AtomicUsize::new(0),
        excl_bad: AtomicUsize::new(0),
        withheld_gave_up: AtomicBool::new(false),
    });
    let ledger = Ledger::new(n_vals.max(1));
    let log = Log::new();
    let desc: Vec<String> = case
        .actors
        .iter()
        .map(|a| {
            format!(
                "{}/{}",
                match a.role {
                    0 => "target",
                    1 => "granter",
                    2 => "bystander",
                    _ => "canceller",
                },
                ctx_name(if a.role == 0 { CO } else { a.ctx })
            )
        })
        .collect();
    let states = States::install(desc, opname);
    let target_ops = case.actors[0].ops.clone();
    let by_kinds: Vec<u8> = case.actors.iter().filter(|a| a.role == 2).map(|a| a.ops[0].0).collect();
    let count_by = |k: u8| by_kinds.iter().filter(|&&b| b == k).count();

    // channels and the socket pair
    let (mpsc_tx, mpsc_rx) = mpsc::channel::<usize>();
    let (mpmc_tx, mpmc_rx) = mpmc::channel::<usize>();
    let (sel_tx, sel_rx) = mpsc::channel::<usize>();
    let (sock_a, sock_b) = may::os::unix::net::UnixStream::pair().unwrap();
    // the target's socket can be used by a bystander after the target is through with it
    let sock_a = Arc::new(std::sync::Mutex::new(sock_a));
    let target_co: Arc<std::sync::Mutex<Option<may::coroutine::Coroutine>>> = Arc::new(std::sync::Mutex::new(None));
    // when cancel() has returned (logical stamp), for the "stops at the next blocking call" rule
    let cancel_done = Arc::new(AtomicU64::new(u64::MAX));

    // ---- target ----
    let yield_in_drop = case.cfg(2) == 1;
    let sock_a2 = sock_a.clone();
    let target = {
        let (sh, log, states, ledger) = (sh.clone(), log.clone(), states.clone(), ledger.clone());
        let ops = target_ops.clone();
        let mpmc_rx = mpmc_rx.clone();
        unsafe {
            may::coroutine::spawn(move || {
                let _dg = DoneGuard(&states, 0);
                // values owned by the stack of the target
                let _vals: Vec<Tok> = (0..n_vals).map(|i| ledger.tok(i)).collect();
                // cfg[2] == 1: one of them reaches a yield point in its destructor (for a
                // cancelled coroutine that yield returns at once)
                struct YieldOnDrop(bool);
                impl Drop for YieldOnDrop {
                    fn drop(&mut self) {
                        if self.0 {
                            may::coroutine::yield_now();
                        }
                    }
                }
                let _y = YieldOnDrop(yield_in_drop);
                let _second = if hold_second { Some(sh.held.lock().unwrap()) } else { None };
                states.enter(0, 0, PRE);
                gate_wait(&sh);
                let sock = sock_a2;
                let mut sel_rx = Some(sel_rx);
                for (i, op) in ops.iter().enumerate() {
                    states.enter(0, i, op.0);
                    let c = log.call(0, i, op.0);
                    match op.0 {
                        T_PARK => may::coroutine::park(),
                        T_SLEEP => may::coroutine::sleep(Duration::from_nanos(op.1 as u64)),
                        T_LOCK => lock_section(&sh),
                        T_SEM => {
                            sh.sem.wait();
                            sh.sem_succ.fetch_add(1, Ordering::SeqCst);
                        }
                        T_CV => wait_ticket(&sh),
                        T_MPSC => {
                            let _ = mpsc_rx.recv();
                        }
                        T_MPMC => {
                            if mpmc_rx.recv().is_ok() {
                                sh.mpmc_got.fetch_add(1, Ordering::SeqCst);
                            }
                        }
                        T_JOIN => {
                            let d = op.1 as u64;
                            let h = may::coroutine::spawn(move || may::coroutine::sleep(Duration::from_nanos(d)));
                            let _ = h.join();
                        }
                        T_FLAG => sh.flag.wait(),
                        T_RWWRITE => rw_section(&sh),
                        T_RWREAD => rw_read_section(&sh),
                        T_READ => {
                            let mut b = [0u8; 1];
                            let mut g = sock.lock().unwrap_or_else(|e| e.into_inner());
                            let _ = g.read(&mut b);
                        }
                        T_SELECT => {
                            let rx = sel_rx.take().unwrap();
                            may::cqueue::scope(|cq| {
                                cq.add(0, move |es| {
                                    if rx.recv().is_ok() {
                                        es.send(0);
                                    }
                                });
                                cq.add(1, |es| {
                                    may::coroutine::sleep(Duration::from_secs(3600));
                                    es.send(0);
                                });
                                let _ = cq.poll(None);
                            });
                        }
                        _ => pause(),
                    }
                    log.ret(c, 0, 0);
                    states.leave(0, i);
                }
            })
        }
    };
    *target_co.lock().unwrap() = Some(target.coroutine().clone());

    // ---- granter, bystanders ----
    let mut others = vec![];
    let mut cos: Vec<Option<may::coroutine::Coroutine>> = vec![Some(target.coroutine().clone())];
    let mut mpsc_tx = Some(mpsc_tx);
    let mut mpmc_tx = Some(mpmc_tx);
    let mut sel_tx = Some(sel_tx);
    let mut sock_b = Some(sock_b);
    for (ai, a) in case.actors.iter().enumerate().skip(1) {
        match a.role {
            1 => {
                let (sh, log, states) = (sh.clone(), log.clone(), states.clone());
                let gops = a.ops.clone();
                let tops = target_ops.clone();
                let co = target.coroutine().clone();
                let (mpsc_tx, mpmc_tx, sel_tx, mut sock_b) = (mpsc_tx.take().unwrap(), mpmc_tx.take().unwrap(), sel_tx.take().unwrap(), sock_b.take().unwrap());
                let nb: Vec<usize> = (0..16u8).map(count_by).collect();
                let h = spawn(a.ctx, "granter", move || {
                    let _dg = DoneGuard(&states, ai);
                    // take the locks the target (and bystanders) will have to wait for
                    let need_m1 = tops.iter().any(|o| o.0 == T_LOCK) || nb[T_LOCK as usize] > 0;
                    let need_rw = tops.iter().any(|o| matches!(o.0, T_RWWRITE | T_RWREAD)) || nb[T_RWWRITE as usize] + nb[T_RWREAD as usize] > 0;
                    let mut g1 = if need_m1 { Some(sh.m1.lock().unwrap()) } else { None };
                    let mut g2 = if need_rw { Some(sh.rw.write().unwrap()) } else { None };
                    if g1.is_some() {
                        sh.occ_m1.fetch_add(1, Ordering::SeqCst);
                    }
                    if g2.is_some() {
                        sh.occ_rw.fetch_add(1, Ordering::SeqCst);
                    }
                    sh.gate.store(true, Ordering::SeqCst);
                    for (i, top) in tops.iter().enumerate() {
                        let delay = gops.get(i).map(|o| o.1 as u64).unwrap_or(0);
                        if delay > 0 {
                            sleep_ns(delay);
                        }
                        // a withheld grant is only issued once the target has ended: the cancel
                        // alone has to get the target out of this (or an earlier) operation
                        if gops.get(i).is_some_and(|o| o.2 == 1) && !poll_until(|| states.reached(0, usize::MAX - 1), 20_000_000_000) {
                            sh.withheld_gave_up.store(true, Ordering::SeqCst);
                        }
                        states.enter(ai, i, G);
                        let c = log.call(ai, i, G);
                        let k = top.0;
                        let extra = nb[k as usize];
                        match k {
                            T_PARK => co.unpark(),
                            T_LOCK => {
                                if let Some(g) = g1.take() {
                                    sh.occ_m1.fetch_sub(1, Ordering::SeqCst);
                                    drop(g);
                                }
                            }
                            T_SEM => {
                                for _ in 0..1 + extra {
                                    sh.sem.post();
                                }
                            }
                            T_CV => {
                                for _ in 0..1 + extra {
                                    *sh.cv.0.lock().unwrap() += 1;
                                    sh.cv.1.notify_one();
                                }
                            }
                            T_MPSC => {
                                let _ = mpsc_tx.send(1);
                            }
                            T_MPMC => {
                                for _ in 0..1 + extra {
                                    let _ = mpmc_tx.send(1);
                                }
                            }
                            T_FLAG => sh.flag.fire(),
                            T_RWWRITE | T_RWREAD => {
                                if let Some(g) = g2.take() {
                                    sh.occ_rw.fetch_sub(1, Ordering::SeqCst);
                                    drop(g);
                                }
                            }
                            T_READ => {
                                let _ = sock_b.write_all(b"x");
                                sched::kick_idle();
                            }
                            T_SELECT => {
                                let _ = sel_tx.send(1);
                            }
                            _ => {}
                        }
                        log.ret(c, k as i64, 0);
                        states.leave(ai, i);
                    }
                    // whatever the target never came to wait for: serve the bystanders anyway
                    if let Some(g) = g1.take() {
                        sh.occ_m1.fetch_sub(1, Ordering::SeqCst);
                        drop(g);
                    }
                    if let Some(g) = g2.take() {
                        sh.occ_rw.fetch_sub(1, Ordering::SeqCst);
                        drop(g);
                    }
                    // the bystander that reads from the target's socket gets its byte once the
                    // target has ended (its read blocks for as long as the target is around)
                    if nb[T_READ as usize] > 0 {
                        poll_until(|| states.reached(0, usize::MAX - 1), 30_000_000_000);
                        let _ = sock_b.write_all(b"y");
                        sched::kick_idle();
                    }
                    for k in [T_SEM, T_CV, T_MPMC, T_FLAG] {
                        if !tops.iter().any(|o| o.0 == k) {
                            for _ in 0..nb[k as usize] {
                                match k {
                                    T_SEM => sh.sem.post(),
                                    T_CV => {
                                        *sh.cv.0.lock().unwrap() += 1;
                                        sh.cv.1.notify_one();
                                    }
                                    T_MPMC => {
                                        let _ = mpmc_tx.send(1);
                                    }
                                    _ => sh.flag.fire(),
                                }
                            }
                        }
                    }
                });
                cos.push(None);
                others.push((ai, h));
            }
            2 => {
                let (sh, states) = (sh.clone(), states.clone());
                let k = a.ops[0].0;
                let rx = mpmc_rx.clone();
                let sock = sock_a.clone();
                let after = target_ops.iter().position(|o| o.0 == T_READ).map_or(0, |i| i + 1);
                let h = spawn(if k == T_READ { CO } else { a.ctx }, "bystander", move || {
                    let _dg = DoneGuard(&states, ai);
                    gate_wait(&sh);
                    if k == T_READ {
                        // blocks in a read on the socket the target has read from before
                        poll_until(|| states.reached(0, after), 30_000_000_000);
                    }
                    states.enter(ai, 0, k);
                    match k {
                        T_READ => {
                            let mut b = [0u8; 1];
                            let mut g = sock.lock().unwrap_or_else(|e| e.into_inner());
                            let _ = g.read(&mut b);
                        }
                        T_SEM => {
                            sh.sem.wait();
                            sh.sem_succ.fetch_add(1, Ordering::SeqCst);
                        }
                        T_CV => wait_ticket(&sh),
                        T_LOCK => lock_section(&sh),
                        T_MPMC => {
                            if rx.recv().is_ok() {
                                sh.mpmc_got.fetch_add(1, Ordering::SeqCst);
                            }
                        }
                        T_FLAG => sh.flag.wait(),
                        T_RWREAD => rw_read_section(&sh),
                        _ => rw_section(&sh),
                    }
                    states.leave(ai, 0);
                });
                cos.push(None);
                others.push((ai, h));
            }
            _ => cos.push(None),
        }
    }
    drop(mpmc_rx);
    // the canceller (targets index 0 only); record when cancel() has returned
    let cancellers = {
        let mut v = spawn_cancellers(case, &cos);
        let cd = cancel_done.clone();
        let hs: Vec<H<()>> = v.drain(..).collect();
        let mut outv = vec![];
        for h in hs {
            let cd = cd.clone();
            outv.push(spawn(TH, "cancel-watch", move || {
                let _ = h.join();
                cd.fetch_min(sched::stamp(), Ordering::SeqCst);
            }));
        }
        outv
    };
    let planned_cancel = case.actors.iter().any(|a| a.role == 9 && a.ops.iter().any(|o| o.1 == 0));
    let tend = classify(target.join());
    let t_join_ret = sched::stamp();
    let drops_at_join: Vec<usize> = (0..n_vals).map(|i| ledger.drops(i)).collect();
    for (ai, h) in others {
        match h.join() {
            End::Ok(()) => {}
            e => out.fail(&format!("{}-ended-abnormally", if case.actors[ai].role == 1 { "granter" } else { "bystander" }), format!("actor {ai} {}", e.kind())),
        }
    }
    for h in cancellers {
        let _ = h.join();
    }
    // a coroutine that is not cancelled never observes a cancellation - also not the ones
    // that get the target's pooled stack afterwards: two fresh coroutines really block once
    {
        let probe_sem = Arc::new(Semphore::new(0));
        let mut ps = vec![];
        for _ in 0..2 {
            let s = probe_sem.clone();
            ps.push(spawn(CO, "probe", move || s.wait()));
        }
        sleep_ns(20_000);
        probe_sem.post();
        probe_sem.post();
        for p in ps {
            match p.join() {
                End::Ok(()) => {}
                e => out.fail("fresh-coroutine-after-the-target-observed-a-cancel", e.kind()),
            }
        }
    }
    crate::child::settle();

    // ---------------- oracle ----------------
    let obs = log.take();
    let t_obs: Vec<&Obs> = obs.iter().filter(|o| o.actor == 0).collect();
    let done_all = t_obs.len() == target_ops.len();
    match &tend {
        End::Ok(()) => {
            if !done_all {
                out.fail("target-ok-without-finishing", format!("{} of {} ops", t_obs.len(), target_ops.len()));
            }
        }
        End::Cancel => {
            if !planned_cancel {
                out.fail("cancel-observed-by-uncancelled-target", String::new());
            }
        }
        End::Panic(s) => out.fail("target-panicked", s.clone()),
    }
    // stops at its current or next blocking call: an operation that certainly suspends (a sleep
    // of non-zero length) and that began after cancel() had returned must not complete. (for the
    // event driven operations nobody can tell from outside whether they had to block: the event
    // may have arrived between the call and its first look at the primitive)
    if sh.withheld_gave_up.load(Ordering::SeqCst) {
        out.fail("cancel-did-not-end-blocked-target", "20 virtual s after the cancel the target was still blocked in an operation whose grant was withheld".into());
    }
    let cd = cancel_done.load(Ordering::SeqCst);
    if cd != u64::MAX {
        for o in &t_obs {
            if o.c > cd && o.op == T_SLEEP && target_ops[o.idx].1 > 0 {
                out.fail("sleep-completed-after-cancel", format!("op {} began at {} after cancel returned at {cd}", o.idx, o.c));
            }
        }
    }
    for (i, d) in drops_at_join.iter().enumerate() {
        if *d != 1 {
            out.fail(if *d == 0 { "stack-value-not-dropped" } else { "stack-value-dropped-twice" }, format!("value {i} drops {d} when join returned ({})", tend.kind()));
        }
    }
    let _ = t_join_ret;
    match sh.held.try_lock() {
        Ok(_) => {}
        Err(std::sync::TryLockError::WouldBlock) => out.fail("held-mutex-not-released", tend.kind()),
        Err(std::sync::TryLockError::Poisoned(_)) => out.fail("held-mutex-poisoned-by-cancel", tend.kind()),
    }
    if sh.excl_bad.load(Ordering::SeqCst) > 0 {
        out.fail("exclusion-violated", String::new());
    }
    match sh.m1.try_lock() {
        Ok(_) => {}
        Err(std::sync::TryLockError::WouldBlock) => out.fail("waited-mutex-not-free", tend.kind()),
        Err(std::sync::TryLockError::Poisoned(_)) => out.fail("waited-mutex-poisoned", tend.kind()),
    }
    match sh.rw.try_write() {
        Ok(_) => {}
        Err(std::sync::TryLockError::WouldBlock) => out.fail("waited-rwlock-not-free", tend.kind()),
        Err(std::sync::TryLockError::Poisoned(_)) => out.fail("waited-rwlock-poisoned", tend.kind()),
    }
    // conservation
    let grants = |k: u8| obs.iter().filter(|g| g.op == G && g.res == k as i64).count();
    let sem_posts = if target_ops.iter().any(|o| o.0 == T_SEM) { grants(T_SEM) * (1 + count_by(T_SEM)) } else { count_by(T_SEM) };
    let v = sh.sem.get_value();
    let s = sh.sem_succ.load(Ordering::SeqCst);
    if v + s != sem_posts {
        out.fail(if v + s < sem_posts { "semaphore-permit-lost" } else { "semaphore-permit-duplicated" }, format!("value {v} successes {s} posts {sem_posts} target {}", tend.kind()));
    }
    let tickets = if target_ops.iter().any(|o| o.0 == T_CV) { grants(T_CV) * (1 + count_by(T_CV)) } else { count_by(T_CV) };
    let avail = match sh.cv.0.lock() {
        Ok(g) => *g,
        Err(e) => {
            out.fail("condvar-mutex-poisoned-by-cancel", tend.kind());
            *e.into_inner()
        }
    };
    let served = sh.cv_served.load(Ordering::SeqCst);
    if avail + served != tickets {
        out.fail("condvar-ticket-lost-or-duplicated", format!("avail {avail} served {served} tickets {tickets}"));
    }
    let cancelled = matches!(tend, End::Cancel);
    let pre = sched::preempts() > 0;
    // where was the target when the cancel landed?
    let in_op = cd != u64::MAX && t_obs.iter().any(|o| o.c < cd && cd < o.r);
    let racing = cd != u64::MAX && obs.iter().any(|g| g.op == G && g.actor != 0 && g.c < cd + 40 && cd < g.r + 40);
    out.flag_if(cancelled, "target_cancelled");
    out.flag_if(matches!(tend, End::Ok(())), "target_finished");
    out.flag_if(in_op, "cancel_during_completed_op");
    out.flag_if(racing, "cancel_raced_with_grant");
    out.flag_if(pre, "preempted");
    out.flag_if(!by_kinds.is_empty(), "bystanders");
    out.flag_if(hold_second, "holds_second_mutex");
    for o in &target_ops {
        out.flag(opname(o.0));
    }
    out.nontrivial = pre && cancelled && (racing || !by_kinds.is_empty() || sched::preempted_in("park.rs") || sched::preempted_in("cancel.rs"));
    out
}

pub fn strategy(g: &GenCfg) -> BoxedStrategy<Case> {
    let g2 = g.clone();
    let kinds = vec![T_PARK, T_SLEEP, T_LOCK, T_SEM, T_CV, T_MPSC, T_MPMC, T_JOIN, T_FLAG, T_RWWRITE, T_SELECT, T_YIELD, T_READ, T_RWREAD];
    let tops = proptest::sample::subsequence(kinds, 1..=4).prop_shuffle().prop_flat_map(|ks| {
        let n = ks.len();
        (Just(ks), proptest::collection::vec(1u32..600_000, n))
    });
    (tops, 0i64..2, 0i64..4, 0u8..2, proptest::collection::vec((prop_oneof![Just(T_SEM), Just(T_CV), Just(T_LOCK), Just(T_MPMC), Just(T_FLAG), Just(T_RWWRITE), Just(T_RWREAD)], 0u8..2), 0..=2), proptest::collection::vec(prop_oneof![2 => 0u32..3_000, 2 => 0u32..400_000], 4))
        .prop_flat_map(move |((ks, args), hold, nvals, gctx, bys, delays)| {
            let total: u32 = delays.iter().sum::<u32>() + 300_000;
            (Just((ks, args, hold, nvals, gctx, bys, delays)), canceller_strategy(1, total), gen::config(&g2), gen::schedule(&g2, false))
        })
        .prop_map(|((ks, args, hold, nvals, gctx, bys, delays), canc, (workers, pool, feat), sched)| {
            let mut actors = vec![];
            let tops: Vec<Op> = ks.iter().zip(args.iter()).map(|(k, a)| Op(*k, if matches!(*k, T_SLEEP | T_JOIN) { *a } else { 0 }, 0)).collect();
            let mut gops: Vec<Op> = (0..tops.len()).map(|i| Op(G, delays[i % delays.len()], 0)).collect();
            // one case in three: one grant is withheld until the target has ended
            if delays[3] % 3 == 0 {
                let j = delays[2] as usize % gops.len();
                gops[j].2 = 1;
            }
            actors.push(Actor { ctx: CO, role: 0, ops: tops });
            actors.push(Actor { ctx: gctx, role: 1, ops: gops });
            for (k, ctx) in bys {
                actors.push(Actor { ctx, role: 2, ops: vec![Op(k, 0, 0)] });
            }
            // the target reads from a socket: half of the time a bystander blocks in a read
            // on the same socket afterwards (the target's io registration is stale by then)
            if ks.contains(&T_READ) && ks.last() != Some(&T_READ) && delays[0] % 2 == 0 {
                actors.push(Actor { ctx: CO, role: 2, ops: vec![Op(T_READ, 0, 0)] });
                // ... and the operation after the read is one that only the cancel can end
                let j = ks.iter().position(|k| *k == T_READ).unwrap() + 1;
                for g in actors[1].ops.iter_mut() {
                    g.2 = 0;
                }
                actors[1].ops[j].2 = 1;
            }
            // always a canceller in this family
            let c = canc.unwrap_or(Actor { ctx: TH, role: 9, ops: vec![Op(20, 0, 1_000)] });
            actors.push(c);
            Case { fam: "cancel".into(), workers, pool, feat, cfg: vec![hold, nvals, (delays[1] % 2) as i64], actors, sched, weak: 0 }
        })
        .boxed()
}
