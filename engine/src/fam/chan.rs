//! `chan` family: mpsc / spsc / mpmc channels (C06 delivery, C07 disconnect)
//!
//! cfg[0] = kind (0 mpsc, 1 spsc, 2 mpmc); cfg[1] = 1: receivers drain until Err at the end;
//! cfg[3] = 1 (mpmc): all consumers share one Receiver handle; cfg[2] = 1: every sender keeps its Sender alive until all it has sent was received (a
//!          blocked receiver must be woken by a send, not only by the disconnect)
//! actors: role 0 sender, role 1 receiver
use crate::case::{Actor, Case, Op, Outcome};
use crate::gen::{self, GenCfg};
use crate::util::*;
use may::sync::{mpmc, mpsc, spsc};
use proptest::prelude::*;
use std::sync::mpsc::{RecvTimeoutError, TryRecvError};
use std::time::Duration;

// sender ops
pub const S_SEND: u8 = 0;
pub const S_YIELD: u8 = 1;
pub const S_SLEEP: u8 = 2; // arg us
pub const S_CLONE: u8 = 3;
pub const S_DROP1: u8 = 4;
pub const S_DROPALL: u8 = 9; // implicit at the end, logged
pub const S_HOLD: u8 = 8; // implicit before the final drop when cfg[2]==1
// receiver ops
pub const R_RECV: u8 = 10;
pub const R_TRY: u8 = 11;
pub const R_TIMED: u8 = 12; // arg ms
pub const R_YIELD: u8 = 13;
pub const R_SLEEP: u8 = 14; // arg us
pub const R_DROP: u8 = 15;
pub const R_DRAIN: u8 = 16; // implicit at the end when cfg[1]==1: recv until Err

// result codes
const OK: i64 = 0;
const EMPTY: i64 = 1;
const DISC: i64 = 2;
const TIMEOUT: i64 = 3;
const SENDERR: i64 = 4;
const SKIP: i64 = 5;
const SENDERR_BAD: i64 = 6;

pub fn opname(op: u8) -> &'static str {
    match op {
        S_SEND => "send",
        S_YIELD | R_YIELD => "yield",
        S_SLEEP | R_SLEEP => "sleep",
        S_CLONE => "clone_tx",
        S_DROP1 => "drop_tx",
        S_DROPALL => "drop_all_tx",
        S_HOLD => "hold_tx_until_received",
        R_RECV => "recv",
        R_TRY => "try_recv",
        R_TIMED => "recv_timeout",
        R_DROP => "drop_rx",
        R_DRAIN => "recv_until_err",
        _ => "?",
    }
}

fn kind_name(kind: i64) -> &'static str {
    match kind {
        0 => "mpsc",
        1 => "spsc",
        _ => "mpmc",
    }
}

enum Tx {
    Mpsc(mpsc::Sender<Tok>),
    Spsc(spsc::Sender<Tok>),
    Mpmc(mpmc::Sender<Tok>),
}
enum Rx {
    Mpsc(mpsc::Receiver<Tok>),
    Spsc(spsc::Receiver<Tok>),
    Mpmc(mpmc::Receiver<Tok>),
    /// several consumers block through one and the same Receiver handle (it is Sync)
    MpmcShared(std::sync::Arc<mpmc::Receiver<Tok>>),
}

impl Tx {
    fn send(&self, t: Tok) -> Result<(), Tok> {
        match self {
            Tx::Mpsc(s) => s.send(t).map_err(|e| e.0),
            Tx::Spsc(s) => s.send(t).map_err(|e| e.0),
            Tx::Mpmc(s) => s.send(t).map_err(|e| e.0),
        }
    }
    fn try_clone(&self) -> Option<Tx> {
        match self {
            Tx::Mpsc(s) => Some(Tx::Mpsc(s.clone())),
            Tx::Spsc(_) => None,
            Tx::Mpmc(s) => Some(Tx::Mpmc(s.clone())),
        }
    }
}

impl Rx {
    fn recv(&self) -> Result<Tok, i64> {
        match self {
            Rx::Mpsc(r) => r.recv().map_err(|_| DISC),
            Rx::Spsc(r) => r.recv().map_err(|_| DISC),
            Rx::Mpmc(r) => r.recv().map_err(|_| DISC),
            Rx::MpmcShared(r) => r.recv().map_err(|_| DISC),
        }
    }
    fn try_recv(&self) -> Result<Tok, i64> {
        let m = |e| match e {
            TryRecvError::Empty => EMPTY,
            TryRecvError::Disconnected => DISC,
        };
        match self {
            Rx::Mpsc(r) => r.try_recv().map_err(m),
            Rx::Spsc(r) => r.try_recv().map_err(m),
            Rx::Mpmc(r) => r.try_recv().map_err(m),
            Rx::MpmcShared(r) => r.try_recv().map_err(m),
        }
    }
    fn recv_timeout(&self, d: Duration) -> Result<Tok, i64> {
        let m = |e| match e {
            RecvTimeoutError::Timeout => TIMEOUT,
            RecvTimeoutError::Disconnected => DISC,
        };
        match self {
            Rx::Mpsc(r) => r.recv_timeout(d).map_err(m),
            // spsc has no timed receive
            Rx::Spsc(r) => r.recv().map_err(|_| DISC),
            Rx::Mpmc(r) => r.recv_timeout(d).map_err(m),
            Rx::MpmcShared(r) => r.recv_timeout(d).map_err(m),
        }
    }
}

/// prefixes every fingerprint with the channel kind
struct KindOut {
    out: Outcome,
    kind: i64,
}
impl KindOut {
    fn fail(&mut self, fp: &str, detail: String) {
        self.out.fail(&format!("{}.{fp}", kind_name(self.kind)), detail);
    }
}

/// logs the drop of the receiver also when it happens in the unwind of a cancelled coroutine
struct RxDrop {
    rx: Option<Rx>,
    log: Log,
    ai: usize,
    idx: usize,
}
impl Drop for RxDrop {
    fn drop(&mut self) {
        if let Some(r) = self.rx.take() {
            let c = self.log.call(self.ai, self.idx, R_DROP);
            drop(r);
            self.log.ret(c, OK, 0);
        }
    }
}

pub fn run(case: &Case) -> Outcome {
    let kind = case.cfg(0);
    let drain = case.cfg(1) == 1;
    let mut out = Outcome::new();

    // ids: sender s sends base[s] .. base[s]+n_s
    let mut base = vec![];
    let mut total = 0usize;
    for a in &case.actors {
        base.push(total);
        if a.role == 0 {
            total += a.ops.iter().filter(|o| o.0 == S_SEND).count();
        }
    }
    let ledger = Ledger::new(total.max(1));
    let log = Log::new();
    let desc: Vec<String> = case
        .actors
        .iter()
        .map(|a| format!("{}.{}/{}", kind_name(kind), if a.role == 0 { "sender" } else { "receiver" }, ctx_name(a.ctx)))
        .collect();
    let states = States::install(desc, opname);

    let (tx0, rx0) = match kind {
        0 => {
            let (t, r) = mpsc::channel::<Tok>();
            (Tx::Mpsc(t), Rx::Mpsc(r))
        }
        1 => {
            let (t, r) = spsc::channel::<Tok>();
            (Tx::Spsc(t), Rx::Spsc(r))
        }
        _ => {
            let (t, r) = mpmc::channel::<Tok>();
            (Tx::Mpmc(t), Rx::Mpmc(r))
        }
    };
    // hand out the endpoints: every sender actor gets a clone (the only one for spsc)
    let n_senders = case.actors.iter().filter(|a| a.role == 0).count();
    let n_receivers = case.actors.iter().filter(|a| a.role == 1).count();
    let mut txs: Vec<Tx> = vec![];
    for i in 0..n_senders {
        if i + 1 == n_senders {
            break;
        }
        txs.push(tx0.try_clone().expect("spsc has exactly one sender"));
    }
    txs.push(tx0);
    let mut rxs: Vec<Rx> = vec![];
    if case.cfg(3) == 1 && kind == 2 {
        // cfg[3] == 1: one Receiver handle shared by all consumers
        let shared = match rx0 {
            Rx::Mpmc(r) => std::sync::Arc::new(r),
            _ => unreachable!(),
        };
        for _ in 0..n_receivers {
            rxs.push(Rx::MpmcShared(shared.clone()));
        }
    } else {
        for i in 0..n_receivers {
            if i + 1 == n_receivers {
                break;
            }
            match &rx0 {
                Rx::Mpmc(r) => rxs.push(Rx::Mpmc(r.clone())),
                _ => panic!("only mpmc has several receivers"),
            }
        }
        rxs.push(rx0);
    }

    let hold = case.cfg(2) == 1 && drain && !case.actors.iter().any(|a| a.role == 9);
    let held_gave_up = std::sync::Arc::new(std::sync::atomic::AtomicBool::new(false));
    let mut handles = vec![];
    let mut handle_actor: Vec<usize> = vec![];
    for (ai, a) in case.actors.iter().enumerate() {
        if a.role == 9 {
            continue;
        }
        handle_actor.push(ai);
        let (log, states, ledger) = (log.clone(), states.clone(), ledger.clone());
        let ops = a.ops.clone();
        let b = base[ai];
        if a.role == 0 {
            let tx = txs.pop().unwrap();
            let held_gave_up = held_gave_up.clone();
            handles.push(spawn(a.ctx, "sender", move || {
                let _dg = DoneGuard(&states, ai);
                let mut hs = vec![tx];
                let mut sent_ok: Vec<usize> = vec![];
                let mut k = 0usize;
                let nops = ops.len();
                for (i, op) in ops.iter().enumerate() {
                    states.enter(ai, i, op.0);
                    match op.0 {
                        S_SEND => {
                            let id = b + k;
                            k += 1;
                            let c = log.call(ai, i, S_SEND);
                            match hs.last() {
                                Some(tx) => match tx.send(ledger.tok(id)) {
                                    Ok(()) => {
                                        sent_ok.push(id);
                                        log.ret(c, OK, id as i64)
                                    }
                                    Err(t) => {
                                        // the value must come back intact
                                        let same = t.valid() && t.id == id;
                                        log.ret(c, if same { SENDERR } else { SENDERR_BAD }, id as i64);
                                    }
                                },
                                None => log.ret(c, SKIP, id as i64),
                            }
                        }
                        S_YIELD => pause(),
                        S_SLEEP => sleep_ns(op.1 as u64 * 1000),
                        S_CLONE => {
                            if let Some(t) = hs.last().and_then(|t| t.try_clone()) {
                                hs.push(t);
                            }
                        }
                        S_DROP1 => {
                            let last = hs.len() == 1;
                            let c = log.call(ai, i, if last { S_DROPALL } else { S_DROP1 });
                            hs.pop();
                            log.ret(c, OK, 0);
                        }
                        _ => {}
                    }
                    states.leave(ai, i);
                }
                if hold && !hs.is_empty() {
                    // keep the channel connected until everything sent through it has arrived
                    states.enter(ai, nops, S_HOLD);
                    if !poll_until(|| sent_ok.iter().all(|id| ledger.drops(*id) > 0), 10_000_000_000) {
                        held_gave_up.store(true, std::sync::atomic::Ordering::SeqCst);
                    }
                    states.leave(ai, nops);
                }
                if !hs.is_empty() {
                    states.enter(ai, nops, S_DROPALL);
                    let c = log.call(ai, nops, S_DROPALL);
                    drop(hs);
                    log.ret(c, OK, 0);
                }
            }));
        } else {
            let rx = rxs.pop().unwrap();
            handles.push(spawn(a.ctx, "receiver", move || {
                let _dg = DoneGuard(&states, ai);
                let nops = ops.len();
                let mut rxg = RxDrop { rx: Some(rx), log: log.clone(), ai, idx: nops + 1 };
                let got = |r: Result<Tok, i64>| -> (i64, i64) {
                    match r {
                        Ok(t) => {
                            let id = t.take();
                            (OK, if id == usize::MAX { -1 } else { id as i64 })
                        }
                        Err(e) => (e, 0),
                    }
                };
                for (i, op) in ops.iter().enumerate() {
                    states.enter(ai, i, op.0);
                    match (op.0, rxg.rx.as_ref()) {
                        (R_RECV, Some(r)) => {
                            let c = log.call(ai, i, R_RECV);
                            let (res, v) = got(r.recv());
                            log.ret(c, res, v);
                        }
                        (R_TRY, Some(r)) => {
                            let c = log.call(ai, i, R_TRY);
                            let (res, v) = got(r.try_recv());
                            log.ret(c, res, v);
                        }
                        (R_TIMED, Some(r)) => {
                            let c = log.call(ai, i, R_TIMED);
                            let (res, v) = got(r.recv_timeout(Duration::from_millis(op.1 as u64)));
                            log.ret(c, res, v);
                        }
                        (R_YIELD, _) => pause(),
                        (R_SLEEP, _) => sleep_ns(op.1 as u64 * 1000),
                        (R_DROP, Some(_)) => {
                            // aimed (op.1 = k > 0): a few schedule points after sender k-1 has
                            // entered its op number op.2 >> 8 - the drop then lands between the
                            // steps of that send (check of the port flag / push / wake-up)
                            if op.1 > 0 && n_senders > 0 {
                                states.wait_reached((op.1 as usize - 1) % n_senders, (op.2 >> 8) as usize);
                                let d = (op.2 & 0xff) as u64 * 100;
                                if d > 0 {
                                    sleep_ns(d);
                                }
                            }
                            let c = log.call(ai, i, R_DROP);
                            drop(rxg.rx.take());
                            log.ret(c, OK, 0);
                        }
                        _ => {}
                    }
                    states.leave(ai, i);
                }
                if rxg.rx.is_some() {
                    if drain {
                        states.enter(ai, nops, R_DRAIN);
                        loop {
                            let c = log.call(ai, nops, R_DRAIN);
                            let (res, v) = got(rxg.rx.as_ref().unwrap().recv());
                            log.ret(c, res, v);
                            if res != OK {
                                break;
                            }
                        }
                    }
                    states.enter(ai, nops + 1, R_DROP);
                    drop(rxg);
                }
            }));
        }
    }
    // cancellers (role 9) cancel coroutine receivers at generated times
    let mut cos: Vec<Option<may::coroutine::Coroutine>> = vec![None; case.actors.len()];
    for (ai, h) in handle_actor.iter().zip(handles.iter()) {
        if case.actors[*ai].role == 1 {
            cos[*ai] = h.coroutine().cloned();
        }
    }
    let cancellers = crate::fam::mutex::spawn_cancellers(case, &cos);
    let targets = crate::fam::mutex::cancel_targets(case);
    let mut ends = vec![];
    for h in handles {
        ends.push(h.join());
    }
    for c in cancellers {
        let _ = c.join();
    }
    crate::child::settle();

    // ---------------- oracle ----------------
    let mut out = KindOut { out, kind };
    let mut cancelled_rx = 0;
    for (i, e) in ends.iter().enumerate() {
        let ai = handle_actor[i];
        if matches!(e, End::Cancel) && targets.contains(&ai) && case.actors[ai].role == 1 {
            cancelled_rx += 1;
            continue;
        }
        if !e.is_ok() {
            out.fail("actor-ended-abnormally", format!("actor {ai} {}", e.kind()));
        }
    }
    let obs = log.take();
    let is_recv = |o: &Obs| matches!(o.op, R_RECV | R_TRY | R_TIMED | R_DRAIN);
    let mut sent_ok = vec![false; total];
    let mut send_ret = vec![u64::MAX; total];
    let mut recv_by: Vec<Option<(usize, u64)>> = vec![None; total]; // (receiver, call stamp)
    let rx_drops: Vec<&Obs> = obs.iter().filter(|o| o.op == R_DROP).collect();
    let last_tx_drop_call = {
        let drops: Vec<&Obs> = obs.iter().filter(|o| o.op == S_DROPALL).collect();
        if drops.len() == n_senders {
            drops.iter().map(|o| o.c).max()
        } else {
            None
        }
    };
    for o in obs.iter().filter(|o| o.op == S_SEND) {
        match o.res {
            OK => {
                sent_ok[o.val as usize] = true;
                send_ret[o.val as usize] = o.r;
            }
            SENDERR | SENDERR_BAD => {
                let id = o.val;
                if o.res == SENDERR_BAD {
                    out.fail("send-error-returned-other-value", format!("sent {id}"));
                }
                // a send may only fail once some receiver drop has begun ... for mpmc: the last one
                let began = rx_drops.iter().filter(|d| d.c < o.r).count();
                if began < n_receivers {
                    out.fail("send-failed-while-receiver-alive", format!("id {id} drops begun {began}/{n_receivers}"));
                }
            }
            _ => {}
        }
    }
    // a send that started after the last receiver had been dropped completely must fail
    if rx_drops.len() == n_receivers {
        let all_dropped = rx_drops.iter().map(|d| d.r).max().unwrap_or(0);
        for o in obs.iter().filter(|o| o.op == S_SEND && o.res == OK) {
            if o.c > all_dropped {
                out.fail("send-ok-after-all-receivers-dropped", format!("id {}", o.val));
            }
        }
    }
    let mut last_seen: std::collections::HashMap<(usize, usize), i64> = Default::default();
    let sender_of = |id: usize| -> usize {
        let mut s = 0;
        for (ai, a) in case.actors.iter().enumerate() {
            if a.role == 0 && base[ai] <= id {
                s = ai;
            }
        }
        s
    };
    for o in obs.iter().filter(|o| is_recv(o)) {
        match o.res {
            OK => {
                if o.val < 0 || o.val as usize >= total {
                    out.fail("received-garbage", format!("receiver {} got an uninitialised or foreign value", o.actor));
                    continue;
                }
                let id = o.val as usize;
                if recv_by[id].is_some() {
                    out.fail("received-twice", format!("id {id}"));
                }
                recv_by[id] = Some((o.actor, o.c));
                let s = sender_of(id);
                if let Some(prev) = last_seen.insert((o.actor, s), o.val) {
                    if prev >= o.val {
                        out.fail("per-sender-order", format!("receiver {} saw {} after {} from sender {s}", o.actor, o.val, prev));
                    }
                }
            }
            DISC => {
                // disconnected only once every sender has at least begun to drop
                match last_tx_drop_call {
                    Some(c) if c < o.r => {}
                    _ => out.fail("disconnected-while-sender-alive", format!("receiver {} op {}", o.actor, opname(o.op))),
                }
            }
            _ => {}
        }
    }
    for id in 0..total {
        if ledger.taken(id) > 1 {
            out.fail("received-twice", format!("id {id} taken {}", ledger.taken(id)));
        }
        if recv_by[id].is_some() && !sent_ok[id] {
            // a value whose send reported an error must not be delivered
            let failed = obs.iter().any(|o| o.op == S_SEND && (o.res == SENDERR || o.res == SENDERR_BAD) && o.val as usize == id);
            if failed {
                out.fail("received-value-of-failed-send", format!("id {id}"));
            }
        }
        let created = obs.iter().any(|o| o.op == S_SEND && o.res != SKIP && o.val as usize == id);
        if created && ledger.drops(id) != 1 {
            out.fail(
                if ledger.drops(id) == 0 { "value-leaked" } else { "value-dropped-twice" },
                format!("id {id} drops {} sent_ok {} received {}", ledger.drops(id), sent_ok[id], recv_by[id].is_some()),
            );
        }
    }
    if ledger.bad_magic() > 0 {
        out.fail("received-garbage", "bad magic".into());
    }
    // single consumer kinds: an Empty / Disconnected answer is illegal while a value whose
    // send had returned before the call is still undelivered (FIFO linearizability, DESIGN 4)
    if kind != 2 {
        for o in obs.iter().filter(|o| is_recv(o) && (o.res == EMPTY || o.res == DISC)) {
            for id in 0..total {
                if sent_ok[id] && send_ret[id] < o.c {
                    let before = matches!(recv_by[id], Some((_, c)) if c < o.c);
                    if !before {
                        out.fail(
                            if o.res == EMPTY { "empty-but-value-available" } else { "disconnected-before-drained" },
                            format!("receiver {} op {} id {id}", o.actor, opname(o.op)),
                        );
                    }
                }
            }
        }
    }
    // mpmc, C07 "first drains the values still queued and then gets Disconnected": the
    // permits are anonymous and a value can be on its way to a receiver whose call is in
    // progress, so the single consumer rule above does not carry over. But when every send
    // and every sender's drop had returned before a call began, no permit arrives during
    // that call: if it answers Disconnected, every queued value is matched by a permit that
    // somebody holds in a call that began before the answer, and those calls pop all of
    // them before any later call can get a permit. A value that is taken only by a call
    // that began after the answer (or never) was queued and unclaimed during the whole call.
    // (not with timed out or cancelled receivers: their permit is in transit for a while)
    let timed_out = obs.iter().any(|o| o.op == R_TIMED && o.res == EMPTY);
    if kind == 2 && cancelled_rx == 0 && !timed_out {
        let quiet_from = obs.iter().filter(|o| o.op == S_SEND || o.op == S_DROPALL || o.op == S_DROP1 || o.op == S_CLONE).map(|o| o.r).max().unwrap_or(0);
        let all_dropped = last_tx_drop_call.is_some();
        for o in obs.iter().filter(|o| is_recv(o) && o.res == DISC && all_dropped && quiet_from < o.c) {
            for id in 0..total {
                if sent_ok[id] && !matches!(recv_by[id], Some((_, c)) if c < o.r) {
                    out.fail("disconnected-before-drained", format!("receiver {} op {} id {id}", o.actor, opname(o.op)));
                }
            }
        }
    }
    // drain mode: nobody dropped a receiver early, so everything sent must have been received
    let early_rx_drop = case.actors.iter().any(|a| a.role == 1 && a.ops.iter().any(|o| o.0 == R_DROP));
    if drain && !early_rx_drop && cancelled_rx == 0 {
        for id in 0..total {
            if sent_ok[id] && recv_by[id].is_none() {
                out.fail("sent-but-never-received", format!("id {id}: all receivers drained until Disconnected"));
            }
        }
        for (ai, a) in case.actors.iter().enumerate() {
            if a.role == 1 {
                let last = obs.iter().filter(|o| o.actor == ai && o.op == R_DRAIN).last();
                if !matches!(last, Some(o) if o.res == DISC) {
                    out.fail("drain-did-not-end-with-disconnected", format!("receiver {ai}"));
                }
            }
        }
    }

    let mut out = out.out;
    // ---------------- classification ----------------
    let sends: Vec<&Obs> = obs.iter().filter(|o| o.op == S_SEND).collect();
    let recvs: Vec<&Obs> = obs.iter().filter(|o| matches!(o.op, R_RECV | R_TIMED | R_DRAIN)).collect();
    let send_overlap = sends.iter().any(|s| recvs.iter().any(|r| overlaps(s, r)));
    let drop_overlap = obs
        .iter()
        .filter(|o| o.op == S_DROPALL)
        .any(|d| Some(d.c) == last_tx_drop_call && recvs.iter().filter(|r| overlaps(d, r)).count() >= if kind == 2 { 2 } else { 1 });
    let pre = crate::sched::preempts() > 0;
    out.flag_if(send_overlap, "send_overlaps_recv");
    out.flag_if(drop_overlap, "last_drop_overlaps_recv");
    out.flag_if(pre, "preempted");
    out.flag_if(total > 32, "more_than_one_block");
    if held_gave_up.load(std::sync::atomic::Ordering::SeqCst) {
        out.fail(&format!("{}.receiver-not-woken-by-send", kind_name(kind)), "a sender kept the channel connected for 10 virtual s and what it had sent was still not received".into());
    }
    out.flag_if(hold, "senders_hold_until_received");
    out.flag_if(cancelled_rx > 0, "receiver_cancelled");
    out.flag_if(obs.iter().any(|o| o.res == SENDERR || o.res == SENDERR_BAD), "send_error");
    out.flag_if(obs.iter().any(|o| o.res == DISC), "disconnected_seen");
    out.flag_if(obs.iter().any(|o| o.res == TIMEOUT), "timeout_seen");
    out.flag_if(case.actors.iter().any(|a| a.ctx == TH) && case.actors.iter().any(|a| a.ctx == CO), "mixed_ctx");
    out.flag(match kind {
        0 => "mpsc",
        1 => "spsc",
        _ => "mpmc",
    });
    out.nontrivial = pre && (send_overlap || drop_overlap);
    out.num("values", total as i64);
    out
}

/// generator. `bias`: 0 = delivery (C06), 1 = disconnect (C07)
pub fn strategy(g: &GenCfg, bias: u8) -> BoxedStrategy<Case> {
    let kind = prop_oneof![3 => Just(0i64), 2 => Just(1i64), 3 => Just(2i64)];
    let g = g.clone();
    kind.prop_flat_map(move |kind| {
        let n_s = if kind == 1 { 1..=1usize } else { 1..=3usize };
        let n_r = if kind == 2 { 1..=3usize } else { 1..=1usize };
        let max_send: usize = if bias == 1 { 4 } else { 12 };
        let sender_op = prop_oneof![
            6 => Just(Op(S_SEND, 0, 0)),
            2 => Just(Op(S_YIELD, 0, 0)),
            1 => (1u32..1500).prop_map(|us| Op(S_SLEEP, us, 0)),
            // a send that coincides with the expiry of a receiver's recv_timeout(1..3 ms)
            1 => (1u32..4, 0u32..8).prop_map(|(ms, off)| Op(S_SLEEP, ms * 1000 + off - 4, 0)),
            1 => Just(Op(S_CLONE, 0, 0)),
            1 => Just(Op(S_DROP1, 0, 0)),
        ];
        // occasionally a long burst that crosses the 32/64 slot block boundary
        let sender_ops = prop_oneof![
            9 => proptest::collection::vec(sender_op.clone(), 0..=max_send),
            1 => (33usize..80).prop_map(|n| vec![Op(S_SEND, 0, 0); n]),
        ];
        let recv_op = if bias == 1 {
            prop_oneof![
                4 => Just(Op(R_RECV, 0, 0)),
                2 => Just(Op(R_TRY, 0, 0)),
                1 => (1u32..4).prop_map(|ms| Op(R_TIMED, ms, 0)),
                1 => Just(Op(R_YIELD, 0, 0)),
                1 => (1u32..1500).prop_map(|us| Op(R_SLEEP, us, 0)),
                1 => prop_oneof![1 => Just(Op(R_DROP, 0, 0)), 3 => (1u32..4, 0u32..4, 0u32..12).prop_map(|(k, idx, d)| Op(R_DROP, k, (idx << 8) | d))],
            ]
            .boxed()
        } else {
            prop_oneof![
                2 => Just(Op(R_TRY, 0, 0)),
                1 => (1u32..4).prop_map(|ms| Op(R_TIMED, ms, 0)),
                1 => Just(Op(R_YIELD, 0, 0)),
                1 => (1u32..1500).prop_map(|us| Op(R_SLEEP, us, 0)),
            ]
            .boxed()
        };
        let recv_ops = proptest::collection::vec(recv_op, 0..=4);
        let senders = proptest::collection::vec((0u8..2, sender_ops), n_s);
        let receivers = proptest::collection::vec((0u8..2, recv_ops), n_r);
        // C06: always drain; C07: mostly drain (the disconnect must be observed), sometimes not
        let drain = if bias == 1 { prop_oneof![4 => Just(1i64), 1 => Just(0i64)].boxed() } else { Just(1i64).boxed() };
        let canc = if bias == 1 { crate::fam::mutex::canceller_strategy(6, 3_000_000) } else { Just(None).boxed() };
        (senders, receivers, (drain, 0u8..3), gen::config(&g), gen::schedule(&g, false), canc).prop_map(move |(s, r, (drain, h), (workers, pool, feat), sched, canc)| {
            // holding is only sound when somebody keeps receiving until the disconnect
            let hold = (h == 0 && drain == 1 && !r.iter().any(|(_, ops)| ops.iter().any(|o| o.0 == R_DROP))) as i64;
            let mut actors = vec![];
            for (ctx, ops) in s {
                actors.push(Actor { ctx, role: 0, ops });
            }
            for (ctx, ops) in r {
                actors.push(Actor { ctx, role: 1, ops });
            }
            // (a canceller only makes sense with a coroutine receiver among its targets)
            if let Some(mut c) = canc {
                let n = actors.len() as u32;
                for o in c.ops.iter_mut() {
                    o.1 %= n;
                }
                if c.ops.iter().any(|o| actors[o.1 as usize].role == 1 && actors[o.1 as usize].ctx == CO) {
                    actors.push(c);
                }
            }
            Case { fam: "chan".into(), workers, pool, feat, cfg: vec![kind, drain, hold, (kind == 2 && h == 1) as i64], actors, sched, weak: 0 }
        })
    })
    .boxed()
}
