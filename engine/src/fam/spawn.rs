//! `spawn` family (C01): every spawned coroutine runs exactly once, never on two OS threads at
//! once, to its end; join()/wait()/is_done() report completion truthfully
//!
//! actor i = coroutine i. ops[0] = Op(HDR, parent+1 (0 = spawned by the main thread, 1000+t =
//! by user thread t), builder option); the following ops are its body; Op(SPAWN, child) spawns
//! child; the spawner joins its children at the end of its body; the last op is the ending
//! cfg[0] = number of user threads that spawn
use crate::case::{Actor, Case, Op, Outcome};
use crate::gen::{self, GenCfg};
use crate::sched;
use crate::util::*;
use may::coroutine::JoinHandle;
use proptest::prelude::*;
use std::sync::atomic::{AtomicUsize, Ordering};
use std::sync::Arc;
use std::time::Duration;

pub const HDR: u8 = 0;
pub const YIELD: u8 = 1;
pub const SLEEP: u8 = 2; // ns
pub const PARKTO: u8 = 3; // ns
pub const LOCK: u8 = 4; // shared mutex section with a yield inside
pub const SPAWN: u8 = 5; // child index
pub const RET: u8 = 10; // value
pub const PANIC: u8 = 11;
pub const JOIN: u8 = 20;

// builder options
const B_NONE: u32 = 0;
const B_NAME: u32 = 1;
const B_STACK: u32 = 2;
const B_ID: u32 = 3;
// how the spawner waits: 0 join, 1 wait() then join, 2 poll is_done() then join, 3 cancel then join
const W_JOIN: u32 = 0;
const W_WAIT: u32 = 1;
const W_POLL: u32 = 2;
const W_CANCEL: u32 = 3;

pub fn opname(op: u8) -> &'static str {
    match op {
        YIELD => "yield",
        SLEEP => "sleep",
        PARKTO => "park_timeout",
        LOCK => "lock",
        SPAWN => "spawn",
        RET => "return",
        PANIC => "panic",
        JOIN => "join-children",
        _ => "?",
    }
}

struct World {
    case: Case,
    execs: Vec<AtomicUsize>,
    finished: Vec<AtomicUsize>,
    resident: Vec<AtomicUsize>,
    threads_seen: Vec<std::sync::Mutex<Vec<usize>>>,
    double_residency: AtomicUsize,
    early: std::sync::Mutex<Vec<String>>,
    wrong: std::sync::Mutex<Vec<String>>,
    joined: Vec<AtomicUsize>,
    m: may::sync::Mutex<usize>,
    states: States,
}

struct Resident<'a>(&'a AtomicUsize);
impl Drop for Resident<'_> {
    fn drop(&mut self) {
        self.0.store(0, Ordering::SeqCst);
    }
}

fn expected(w: &World, i: usize) -> Result<i64, String> {
    match w.case.actors[i].ops.last() {
        Some(Op(PANIC, _, _)) => Err(format!("mv-expected-panic-{i}")),
        Some(Op(RET, v, _)) => Ok(*v as i64),
        _ => Ok(0),
    }
}

fn spawn_co(w: &Arc<World>, i: usize) -> JoinHandle<i64> {
    let opt = w.case.actors[i].ops[0].2;
    let w2 = w.clone();
    let body = move || body(&w2, i);
    unsafe {
        match opt {
            B_NAME => may::coroutine::Builder::new().name(format!("c{i}")).spawn(body).unwrap(),
            B_STACK => may::coroutine::Builder::new().stack_size(0x4000 + 0x400 * (1 + i % 3)).spawn(body).unwrap(),
            B_ID => may::coroutine::Builder::new().id(i).spawn(body).unwrap(),
            _ => may::coroutine::spawn(body),
        }
    }
}

/// wait for a child the way the program says and check what is reported
fn collect(w: &World, who: &str, who_idx: Option<usize>, child: usize, h: JoinHandle<i64>) {
    if let Some(ix) = who_idx {
        w.states.enter(ix, child, JOIN);
    }
    let how = w.case.actors[child].role as u32;
    let fin = |w: &World| w.finished[child].load(Ordering::SeqCst) == 1;
    let cancelled = how == W_CANCEL;
    match how {
        W_WAIT => {
            h.wait();
            if !fin(w) {
                w.early.lock().unwrap().push(format!("wait() of {child} returned before the closure finished ({who})"));
            }
        }
        W_POLL => {
            let done = poll_until(|| h.is_done(), 10_000_000_000);
            if done && !fin(w) {
                w.early.lock().unwrap().push(format!("is_done() of {child} true before the closure finished ({who})"));
            }
        }
        W_CANCEL => unsafe { h.coroutine().cancel() },
        _ => {}
    }
    let r = classify(h.join());
    w.joined[child].fetch_add(1, Ordering::SeqCst);
    if !cancelled && !fin(w) {
        w.early.lock().unwrap().push(format!("join() of {child} returned before the closure finished ({who})"));
    }
    let exp = expected(w, child);
    let ok = match (&r, &exp) {
        (End::Ok(v), Ok(e)) => v == e,
        (End::Panic(s), Err(e)) => s == e,
        // a cancelled child may also have finished before the cancel took effect
        (End::Cancel, _) => cancelled,
        _ => false,
    };
    if !ok {
        w.wrong.lock().unwrap().push(format!("join() of {child} = {} but the closure ended with {:?} ({who})", r.kind(), exp));
    }
}

fn body(w: &Arc<World>, i: usize) -> i64 {
    let _dg = DoneGuard(&w.states, i);
    w.execs[i].fetch_add(1, Ordering::SeqCst);
    let ops = w.case.actors[i].ops.clone();
    let mut kids: Vec<(usize, JoinHandle<i64>)> = vec![];
    for (k, op) in ops.iter().enumerate().skip(1) {
        w.states.enter(i, k, op.0);
        {
            // a segment with schedule points inside: never entered twice at the same time
            if w.resident[i].swap(1, Ordering::SeqCst) != 0 {
                w.double_residency.fetch_add(1, Ordering::SeqCst);
            }
            let _r = Resident(&w.resident[i]);
            let t = sched::my_tid();
            let mut seen = w.threads_seen[i].lock().unwrap();
            if !seen.contains(&t) {
                seen.push(t);
            }
            drop(seen);
            let probe = may::sync::Mutex::new(0);
            drop(probe.lock());
        }
        match op.0 {
            YIELD => may::coroutine::yield_now(),
            SLEEP => may::coroutine::sleep(Duration::from_nanos(op.1 as u64)),
            PARKTO => may::coroutine::park_timeout(Duration::from_nanos(op.1 as u64)),
            LOCK => {
                let mut g = w.m.lock().unwrap();
                let v = *g;
                may::coroutine::yield_now();
                *g = v + 1;
            }
            SPAWN => kids.push((op.1 as usize, spawn_co(w, op.1 as usize))),
            _ => {}
        }
        w.states.leave(i, k);
    }
    w.states.enter(i, ops.len(), JOIN);
    for (c, h) in kids {
        collect(w, &format!("coroutine {i}"), None, c, h);
    }
    // the last action of the closure
    w.finished[i].store(1, Ordering::SeqCst);
    match ops.last() {
        Some(Op(PANIC, _, _)) => panic!("mv-expected-panic-{i}"),
        Some(Op(RET, v, _)) => *v as i64,
        _ => 0,
    }
}

pub fn run(case: &Case) -> Outcome {
    let mut out = Outcome::new();
    let n = case.actors.len();
    let desc: Vec<String> = (0..n).map(|i| format!("coroutine{}", match case.actors[i].ops[0].2 {
        B_NAME => "+name",
        B_STACK => "+stack",
        B_ID => "+id",
        _ => "",
    })).collect();
    let mut desc = desc;
    desc.push("main-thread".to_string());
    for _ in 0..case.cfg(0) {
        desc.push("user-thread".to_string());
    }
    let states = States::install(desc, opname);
    // cfg[1]: that many trivial coroutines are spawned and joined first, so that the global
    // run queues (64-slot block queues) stand at a generated position when the program
    // starts - its bursts of spawns then straddle a block boundary now and then
    for _ in 0..case.cfg(1).clamp(0, 200) {
        let h = unsafe { may::coroutine::spawn(|| {}) };
        let _ = h.join();
    }
    let w = Arc::new(World {
        case: case.clone(),
        execs: (0..n).map(|_| AtomicUsize::new(0)).collect(),
        finished: (0..n).map(|_| AtomicUsize::new(0)).collect(),
        resident: (0..n).map(|_| AtomicUsize::new(0)).collect(),
        threads_seen: (0..n).map(|_| std::sync::Mutex::new(vec![])).collect(),
        double_residency: AtomicUsize::new(0),
        early: std::sync::Mutex::new(vec![]),
        wrong: std::sync::Mutex::new(vec![]),
        joined: (0..n).map(|_| AtomicUsize::new(0)).collect(),
        m: may::sync::Mutex::new(0),
        states,
    });
    let nthreads = case.cfg(0) as usize;
    // user threads spawn and join their coroutines
    let mut ths = vec![];
    for t in 0..nthreads {
        let w2 = w.clone();
        let mine: Vec<usize> = (0..n).filter(|&i| case.actors[i].ops[0].1 == 1000 + t as u32).collect();
        ths.push(sched::vspawn("spawner", move || {
            let hs: Vec<(usize, JoinHandle<i64>)> = mine.iter().map(|&i| (i, spawn_co(&w2, i))).collect();
            for (i, h) in hs {
                collect(&w2, "user thread", Some(w2.case.actors.len() + 1 + t), i, h);
            }
            w2.states.done(w2.case.actors.len() + 1 + t);
        }));
    }
    let mine: Vec<usize> = (0..n).filter(|&i| case.actors[i].ops[0].1 == 0).collect();
    let hs: Vec<(usize, JoinHandle<i64>)> = mine.iter().map(|&i| (i, spawn_co(&w, i))).collect();
    for (i, h) in hs {
        collect(&w, "main thread", Some(n), i, h);
    }
    w.states.done(n);
    for t in ths {
        if t.join().is_err() {
            out.fail("spawner-thread-panicked", String::new());
        }
    }
    crate::child::settle();
    // ---------------- oracle ----------------
    for i in 0..n {
        let e = w.execs[i].load(Ordering::SeqCst);
        let cancelled = case.actors[i].role as u32 == W_CANCEL;
        // a coroutine whose ancestor was cancelled or panicked before spawning it never exists
        let spawned = w.joined[i].load(Ordering::SeqCst) == 1 || e > 0;
        if e > 1 {
            out.fail("closure-executed-twice", format!("coroutine {i} ran {e} times"));
        }
        if spawned && e == 0 && !cancelled {
            out.fail("closure-never-executed", format!("coroutine {i} was joined but never ran"));
        }
    }
    if w.double_residency.load(Ordering::SeqCst) > 0 {
        out.fail("coroutine-on-two-threads-at-once", String::new());
    }
    if let Some(e) = w.early.lock().unwrap().first() {
        out.fail("completion-reported-early", e.clone());
    }
    if let Some(e) = w.wrong.lock().unwrap().first() {
        out.fail("join-result-wrong", e.clone());
    }
    let migrated = w.threads_seen.iter().any(|s| s.lock().unwrap().len() > 1);
    let pre = sched::preempts() > 0;
    out.flag_if(migrated, "migrated_between_threads");
    out.flag_if(pre, "preempted");
    out.flag_if(nthreads > 0, "spawned_from_user_threads");
    out.flag_if(case.actors.iter().any(|a| a.ops[0].1 >= 1 && a.ops[0].1 < 1000), "nested_spawn");
    out.flag_if(case.actors.iter().any(|a| a.role as u32 == W_CANCEL), "cancelled_child");
    out.flag_if(case.actors.iter().any(|a| matches!(a.ops.last(), Some(Op(PANIC, _, _)))), "panicking_child");
    out.flag_if(n as u8 > case.pool, "more_coroutines_than_pool");
    out.nontrivial = n >= 2 && pre && migrated;
    out.num("coroutines", n as i64);
    out
}

pub fn strategy(g: &GenCfg) -> BoxedStrategy<Case> {
    let g2 = g.clone();
    let step = prop_oneof![
        3 => Just(Op(YIELD, 0, 0)),
        2 => (1u32..400_000).prop_map(|ns| Op(SLEEP, ns, 0)),
        1 => (1u32..2_000_000).prop_map(|ns| Op(PARKTO, ns, 0)),
        2 => Just(Op(LOCK, 0, 0)),
    ];
    let co = (proptest::collection::vec(step, 0..5), prop_oneof![4 => (0u32..1000).prop_map(|v| Op(RET, v, 0)), 1 => Just(Op(PANIC, 0, 0))], 0u32..4, prop_oneof![4 => Just(W_JOIN), 2 => Just(W_WAIT), 2 => Just(W_POLL), 1 => Just(W_CANCEL)], any::<u16>(), any::<u16>());
    (proptest::collection::vec(co, 1..=16), 0i64..=2, prop_oneof![2 => Just(0i64), 2 => 0i64..200, 2 => (1i64..4, 0i64..10).prop_map(|(b, o)| b * 64 - 10 + o)])
        .prop_flat_map(move |(cos, nthreads, offset)| (Just(cos), Just((nthreads, offset)), gen::config(&g2), gen::schedule(&g2, false)))
        .prop_map(|(cos, (nthreads, offset), (workers, pool, feat), sched)| {
            let n = cos.len();
            let mut actors: Vec<Actor> = vec![];
            let mut depth = vec![0usize; n];
            let mut pending: Vec<(usize, usize, u16)> = vec![]; // (parent, child, position seed)
            for (i, (steps, end, opt, how, pseed, posseed)) in cos.into_iter().enumerate() {
                // parent: main thread, a user thread, or an earlier coroutine of depth < 3
                let choices = 1 + nthreads as usize + i;
                let mut pick = (pseed as usize * choices) >> 16;
                let mut parent_code = 0u32;
                if pick == 0 {
                    parent_code = 0;
                } else if pick <= nthreads as usize {
                    parent_code = 1000 + (pick - 1) as u32;
                } else {
                    pick -= 1 + nthreads as usize;
                    if depth[pick] < 3 && !matches!(actors[pick].ops.last(), None) {
                        parent_code = 1 + pick as u32;
                        depth[i] = depth[pick] + 1;
                        pending.push((pick, i, posseed));
                    }
                }
                let mut ops = vec![Op(HDR, parent_code, opt)];
                ops.extend(steps);
                ops.push(end);
                actors.push(Actor { ctx: CO, role: how as u8, ops });
            }
            // insert the spawn steps into the parents' bodies (before the ending op)
            for (p, c, seed) in pending {
                let len = actors[p].ops.len();
                let pos = 1 + ((seed as usize * (len - 1)) >> 16);
                actors[p].ops.insert(pos.min(len - 1), Op(SPAWN, c as u32, 0));
            }
            Case { fam: "spawn".into(), workers, pool, feat, cfg: vec![nthreads, offset], actors, sched, weak: 0 }
        })
        .boxed()
}
