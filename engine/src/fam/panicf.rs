//! `panic` family (C13): a panic stays in its coroutine; lock poisoning follows std
//!
//! role 0 = first wave, role 1 = later spawns (started after the first wave has been joined),
//! role 9 = canceller. ops: body steps, the last op is the ending (RET or a panic kind)
use crate::case::{Actor, Case, Op, Outcome};
use crate::fam::mutex::{cancel_targets, canceller_strategy, spawn_cancellers};
use crate::gen::{self, GenCfg};
use crate::sched;
use crate::util::*;
use may::sync::{Mutex, RwLock};
use proptest::prelude::*;
use std::sync::atomic::{AtomicUsize, Ordering};
use std::sync::Arc;
use std::time::Duration;

pub const YIELD: u8 = 1;
pub const SLEEP: u8 = 2;
pub const LOCK: u8 = 3; // mutex section with arg yields inside
pub const WRITE: u8 = 4; // rwlock write section
pub const READ: u8 = 5;
pub const RET: u8 = 10;
pub const P_OUT: u8 = 11; // panic outside of any lock
pub const P_IN_M: u8 = 12; // panic while holding the mutex (after arg yields)
pub const P_IN_RW: u8 = 13; // panic while holding the write guard
pub const P_SCOPE: u8 = 14; // a scoped child panics, the owner re-raises
pub const P_SELECT: u8 = 15; // a select arm panics, poll re-raises

pub fn opname(op: u8) -> &'static str {
    match op {
        YIELD => "yield",
        SLEEP => "sleep",
        LOCK => "Mutex.lock",
        WRITE => "RwLock.write",
        READ => "RwLock.read",
        RET => "return",
        P_OUT => "panic",
        P_IN_M => "panic-holding-mutex",
        P_IN_RW => "panic-holding-write-guard",
        P_SCOPE => "scoped-child-panics",
        P_SELECT => "select-arm-panics",
        20 => "cancel",
        _ => "?",
    }
}

struct Sh {
    m: Mutex<usize>,
    rw: RwLock<usize>,
    occ_m: AtomicUsize,
    occ_rw: AtomicUsize,
    bad: AtomicUsize,
    m_entered: AtomicUsize,
    got_poisoned_m: AtomicUsize,
    got_poisoned_rw: AtomicUsize,
    /// set inside the critical section right before a holder panics: whoever acquires the
    /// lock afterwards must be told that it is poisoned
    panicked_m: AtomicUsize,
    panicked_rw: AtomicUsize,
    clean_after_panic: AtomicUsize,
}

struct Occ<'a>(&'a AtomicUsize, usize);
impl Drop for Occ<'_> {
    fn drop(&mut self) {
        self.0.fetch_sub(self.1, Ordering::SeqCst);
    }
}

fn msg(i: usize, kind: u8) -> String {
    format!("mv-expected-panic-{}-{i}", opname(kind))
}

fn body(sh: &Sh, states: &States, ai: usize, ops: &[Op]) -> i64 {
    let _dg = DoneGuard(states, ai);
    for (k, op) in ops.iter().enumerate() {
        states.enter(ai, k, op.0);
        match op.0 {
            YIELD => may::coroutine::yield_now(),
            SLEEP => may::coroutine::sleep(Duration::from_nanos(op.1 as u64)),
            LOCK | P_IN_M => {
                let mut clean = true;
                let mut g = sh.m.lock().unwrap_or_else(|e| {
                    sh.got_poisoned_m.fetch_add(1, Ordering::SeqCst);
                    clean = false;
                    e.into_inner()
                });
                if clean && sh.panicked_m.load(Ordering::SeqCst) > 0 {
                    sh.clean_after_panic.fetch_add(1, Ordering::SeqCst);
                }
                if sh.occ_m.fetch_add(1, Ordering::SeqCst) != 0 {
                    sh.bad.fetch_add(1, Ordering::SeqCst);
                }
                let o = Occ(&sh.occ_m, 1);
                let v = *g;
                sh.m_entered.fetch_add(1, Ordering::SeqCst);
                *g = v + 1;
                for _ in 0..op.1 {
                    may::coroutine::yield_now();
                }
                if op.0 == P_IN_M {
                    sh.panicked_m.store(1, Ordering::SeqCst);
                    panic!("{}", msg(ai, P_IN_M));
                }
                drop(o);
                drop(g);
            }
            WRITE | P_IN_RW => {
                let mut clean = true;
                let mut g = sh.rw.write().unwrap_or_else(|e| {
                    sh.got_poisoned_rw.fetch_add(1, Ordering::SeqCst);
                    clean = false;
                    e.into_inner()
                });
                if clean && sh.panicked_rw.load(Ordering::SeqCst) > 0 {
                    sh.clean_after_panic.fetch_add(1, Ordering::SeqCst);
                }
                if sh.occ_rw.fetch_add(1000, Ordering::SeqCst) != 0 {
                    sh.bad.fetch_add(1, Ordering::SeqCst);
                }
                let o = Occ(&sh.occ_rw, 1000);
                *g += 1;
                for _ in 0..op.1 {
                    may::coroutine::yield_now();
                }
                if op.0 == P_IN_RW {
                    sh.panicked_rw.store(1, Ordering::SeqCst);
                    panic!("{}", msg(ai, P_IN_RW));
                }
                drop(o);
                drop(g);
            }
            READ => {
                let mut clean = true;
                let g = sh.rw.read().unwrap_or_else(|e| {
                    sh.got_poisoned_rw.fetch_add(1, Ordering::SeqCst);
                    clean = false;
                    e.into_inner()
                });
                if clean && sh.panicked_rw.load(Ordering::SeqCst) > 0 {
                    sh.clean_after_panic.fetch_add(1, Ordering::SeqCst);
                }
                if sh.occ_rw.fetch_add(1, Ordering::SeqCst) >= 1000 {
                    sh.bad.fetch_add(1, Ordering::SeqCst);
                }
                let o = Occ(&sh.occ_rw, 1);
                for _ in 0..op.1 {
                    may::coroutine::yield_now();
                }
                let _ = *g;
                drop(o);
                drop(g);
            }
            P_OUT => panic!("{}", msg(ai, P_OUT)),
            P_SCOPE => {
                let m = msg(ai, P_SCOPE);
                may::coroutine::scope(|s| unsafe {
                    s.spawn(|| {
                        may::coroutine::yield_now();
                    });
                    let m2 = m.clone();
                    s.spawn(move || {
                        may::coroutine::yield_now();
                        panic!("{}", m2);
                    });
                });
                // not reached: the scope re-raises the child's panic
                return -1;
            }
            P_SELECT => {
                let m = msg(ai, P_SELECT);
                may::cqueue::scope(|cq| {
                    let m2 = m.clone();
                    cq.add(0, move |_es| {
                        may::coroutine::yield_now();
                        panic!("{}", m2);
                    });
                    cq.add(1, |es| {
                        may::coroutine::sleep(Duration::from_secs(3600));
                        es.send(0);
                    });
                    let _ = cq.poll(None);
                });
                return -2;
            }
            RET => return op.1 as i64,
            _ => {}
        }
        states.leave(ai, k);
    }
    0
}

fn expected(case: &Case, i: usize) -> Result<i64, String> {
    for op in &case.actors[i].ops {
        match op.0 {
            P_OUT | P_IN_M | P_IN_RW | P_SCOPE | P_SELECT => return Err(msg(i, op.0)),
            RET => return Ok(op.1 as i64),
            _ => {}
        }
    }
    Ok(0)
}

pub fn run(case: &Case) -> Outcome {
    let mut out = Outcome::new();
    let sh = Arc::new(Sh {
        m: Mutex::new(0),
        rw: RwLock::new(0),
        occ_m: AtomicUsize::new(0),
        occ_rw: AtomicUsize::new(0),
        bad: AtomicUsize::new(0),
        m_entered: AtomicUsize::new(0),
        got_poisoned_m: AtomicUsize::new(0),
        got_poisoned_rw: AtomicUsize::new(0),
        panicked_m: AtomicUsize::new(0),
        panicked_rw: AtomicUsize::new(0),
        clean_after_panic: AtomicUsize::new(0),
    });
    let desc: Vec<String> = case.actors.iter().map(|a| format!("{}", match a.role {
        0 => "coroutine",
        1 => "later-coroutine",
        _ => "canceller",
    })).collect();
    let states = States::install(desc, opname);
    let targets = cancel_targets(case);
    let mut ends: Vec<Option<End<i64>>> = case.actors.iter().map(|_| None).collect();
    for wave in 0..2u8 {
        let mut hs = vec![];
        let mut cos = vec![];
        for (ai, a) in case.actors.iter().enumerate() {
            if a.role != wave {
                cos.push(None);
                continue;
            }
            let (sh, states) = (sh.clone(), states.clone());
            let ops = a.ops.clone();
            let h = unsafe { may::coroutine::spawn(move || body(&sh, &states, ai, &ops)) };
            cos.push(Some(h.coroutine().clone()));
            hs.push((ai, h));
        }
        let cancellers = if wave == 0 { spawn_cancellers(case, &cos) } else { vec![] };
        for (ai, h) in hs {
            ends[ai] = Some(classify(h.join()));
        }
        for c in cancellers {
            let _ = c.join();
        }
    }
    crate::child::settle();
    // ---------------- oracle ----------------
    let mut panics_in_m = (0usize, 0usize); // (certain, possible)
    let mut panics_in_rw = (0usize, 0usize);
    for (i, e) in ends.iter().enumerate() {
        let e = match e {
            Some(e) => e,
            None => continue,
        };
        let exp = expected(case, i);
        let target = targets.contains(&i);
        let ok = match (e, &exp) {
            (End::Ok(v), Ok(x)) => v == x,
            (End::Panic(s), Err(x)) => s == x,
            (End::Cancel, _) => target,
            _ => false,
        };
        if !ok {
            out.fail("join-outcome-wrong", format!("coroutine {i}: join = {} but the closure ends with {:?} (cancel target: {target})", e.kind(), exp));
        }
        if let End::Panic(s) = e {
            let w = if target { 0 } else { 1 };
            if s.contains("panic-holding-mutex") {
                panics_in_m = (panics_in_m.0 + w, panics_in_m.1 + 1);
            }
            if s.contains("panic-holding-write-guard") {
                panics_in_rw = (panics_in_rw.0 + w, panics_in_rw.1 + 1);
            }
        }
    }
    if sh.bad.load(Ordering::SeqCst) > 0 {
        out.fail("exclusion-violated", String::new());
    }
    // the locks were released by the panics / cancels
    match sh.m.try_lock() {
        Ok(g) => {
            if *g != sh.m_entered.load(Ordering::SeqCst) {
                out.fail("lost-update", format!("{} vs {}", *g, sh.m_entered.load(Ordering::SeqCst)));
            }
        }
        Err(std::sync::TryLockError::Poisoned(_)) => {}
        Err(std::sync::TryLockError::WouldBlock) => out.fail("mutex-not-released", String::new()),
    }
    if let Err(std::sync::TryLockError::WouldBlock) = sh.rw.try_write() {
        out.fail("rwlock-not-released", String::new());
    }
    if sh.clean_after_panic.load(Ordering::SeqCst) > 0 {
        out.fail("lock-acquired-clean-after-its-holder-panicked", format!("{} acquisitions", sh.clean_after_panic.load(Ordering::SeqCst)));
    }
    // poison flags: set iff a panic (not a cancel) dropped a guard
    let pm = sh.m.is_poisoned();
    if pm && panics_in_m.1 == 0 {
        out.fail("mutex-poisoned-without-a-panic-inside", format!("cancel targets {targets:?}"));
    }
    if !pm && panics_in_m.0 > 0 {
        out.fail("mutex-not-poisoned-by-panic", String::new());
    }
    let prw = sh.rw.is_poisoned();
    if prw && panics_in_rw.1 == 0 {
        out.fail("rwlock-poisoned-without-a-panic-inside", format!("cancel targets {targets:?}"));
    }
    if !prw && panics_in_rw.0 > 0 {
        out.fail("rwlock-not-poisoned-by-panic", String::new());
    }
    if (sh.got_poisoned_m.load(Ordering::SeqCst) > 0 && !pm) || (sh.got_poisoned_rw.load(Ordering::SeqCst) > 0 && !prw) {
        out.fail("poisoned-result-but-lock-not-poisoned", String::new());
    }
    let n1 = case.actors.iter().filter(|a| a.role == 0).count();
    let n2 = case.actors.iter().filter(|a| a.role == 1).count();
    let any_panic = ends.iter().flatten().any(|e| matches!(e, End::Panic(_)));
    let pre = sched::preempts() > 0;
    out.flag_if(any_panic, "panic_happened");
    out.flag_if(panics_in_m.1 + panics_in_rw.1 > 0, "panic_while_holding_lock");
    out.flag_if(ends.iter().flatten().any(|e| matches!(e, End::Cancel)), "cancel_delivered");
    out.flag_if(n2 > 0, "later_spawns");
    out.flag_if(n1 > case.pool as usize, "stack_reuse");
    out.flag_if(pre, "preempted");
    out.flag_if(sh.got_poisoned_m.load(Ordering::SeqCst) + sh.got_poisoned_rw.load(Ordering::SeqCst) > 0, "locker_saw_poison");
    out.flag_if(case.actors.iter().any(|a| a.ops.iter().any(|o| o.0 == P_SCOPE)), "scoped_child_panic");
    out.flag_if(case.actors.iter().any(|a| a.ops.iter().any(|o| o.0 == P_SELECT)), "select_arm_panic");
    out.nontrivial = any_panic && pre && (n2 > 0 || n1 > case.pool as usize);
    out
}

pub fn strategy(g: &GenCfg) -> BoxedStrategy<Case> {
    let g2 = g.clone();
    let step = prop_oneof![
        3 => Just(Op(YIELD, 0, 0)),
        1 => (1u32..300_000).prop_map(|ns| Op(SLEEP, ns, 0)),
        3 => (0u32..3).prop_map(|y| Op(LOCK, y, 0)),
        2 => (0u32..3).prop_map(|y| Op(WRITE, y, 0)),
        2 => (0u32..3).prop_map(|y| Op(READ, y, 0)),
    ];
    let ending = prop_oneof![
        8 => (0u32..1000).prop_map(|v| Op(RET, v, 0)),
        2 => Just(Op(P_OUT, 0, 0)),
        2 => (0u32..3).prop_map(|y| Op(P_IN_M, y, 0)),
        2 => (0u32..3).prop_map(|y| Op(P_IN_RW, y, 0)),
        1 => Just(Op(P_SCOPE, 0, 0)),
        1 => Just(Op(P_SELECT, 0, 0)),
    ];
    let co = (proptest::collection::vec(step.clone(), 0..5), ending).prop_map(|(mut ops, e)| {
        ops.push(e);
        ops
    });
    let later = (proptest::collection::vec(step, 0..4), 0u32..1000).prop_map(|(mut ops, v)| {
        ops.push(Op(RET, v, 0));
        ops
    });
    (proptest::collection::vec(co, 3..=12), proptest::collection::vec(later, 0..=4))
        .prop_flat_map(move |(w1, w2)| {
            let n = w1.len();
            (Just((w1, w2)), canceller_strategy(n, 30_000), gen::config(&g2), prop_oneof![2 => 1u8..=2, 1 => 3u8..=8], gen::schedule(&g2, false))
        })
        .prop_map(|((w1, w2), canc, (workers, _pool, feat), pool, sched)| {
            let mut actors = vec![];
            for ops in w1 {
                actors.push(Actor { ctx: CO, role: 0, ops });
            }
            if let Some(c) = canc {
                // a read guard dropped by a cancel unwind can abort the process (open finding of
                // C12, rwlock family): cancel targets of this family do not read-lock
                for op in &c.ops {
                    if let Some(a) = actors.get_mut(op.1 as usize) {
                        for o in a.ops.iter_mut() {
                            if o.0 == READ {
                                o.0 = WRITE;
                            }
                        }
                    }
                }
                actors.push(c);
            }
            for ops in w2 {
                actors.push(Actor { ctx: CO, role: 1, ops });
            }
            Case { fam: "panic".into(), workers, pool, feat, cfg: vec![], actors, sched, weak: 0 }
        })
        .boxed()
}
