//! `local` family (C15): coroutine-local storage is private; a fresh coroutine starts clean
//!
//! coroutine actors (role 0) run in waves of cfg[0] (1..3) coroutines, each wave is joined
//! before the next starts, so with a pool of 1-2 stacks every stack is recycled with a
//! generated history. ops[0] = Op(PROBE, kind, 0): the first blocking call of the fresh
//! coroutine; then GET/SET/YIELD/SLEEP; the last op is the ending.
//! thread actors (role 1) use the same keys (per-thread fall-back) all the time.
use crate::case::{Actor, Case, Op, Outcome};
use crate::gen::{self, GenCfg};
use crate::sched;
use crate::util::*;
use may::coroutine_local;
use may::sync::Blocker;
use proptest::prelude::*;
use std::cell::Cell;
use std::sync::atomic::{AtomicBool, AtomicUsize, Ordering};
use std::sync::Arc;
use std::time::Duration;

pub const PROBE: u8 = 0; // kind: 0 none, 1 Blocker.park(1h)+unpark, 2 park_timeout(1h)+unpark, 3 sleep, 4 socket read
pub const GET: u8 = 1; // key
pub const SET: u8 = 2; // key, value
pub const YIELD: u8 = 3;
pub const SLEEP: u8 = 4;
pub const E_RET: u8 = 10;
pub const E_PANIC: u8 = 11;
pub const E_CANCELLED: u8 = 12; // parks and is cancelled
pub const E_TIMEOUT: u8 = 13; // park_timeout that times out, unconsumed
pub const E_BLOCKER_TIMEOUT: u8 = 14; // Blocker park that times out as the last action

pub fn opname(op: u8) -> &'static str {
    match op {
        PROBE => "first-blocking-call",
        GET => "local.get",
        SET => "local.set",
        YIELD => "yield",
        SLEEP => "sleep",
        E_RET => "return",
        E_PANIC => "panic",
        E_CANCELLED => "park-until-cancelled",
        E_TIMEOUT => "park_timeout-expires",
        E_BLOCKER_TIMEOUT => "blocker-park-expires",
        _ => "?",
    }
}

const MAXV: usize = 4096;
static INITS_CO: AtomicUsize = AtomicUsize::new(0);
static INITS_TH: AtomicUsize = AtomicUsize::new(0);
static DROPS_CO: AtomicUsize = AtomicUsize::new(0);
static NEXT_ID: AtomicUsize = AtomicUsize::new(0);
static DROPPED: [AtomicBool; MAXV] = [const { AtomicBool::new(false) }; MAXV];
static DOUBLE_DROP: AtomicUsize = AtomicUsize::new(0);

struct LV {
    val: Cell<i64>,
    owner: Cell<usize>,
    id: usize,
    in_co: bool,
}

fn new_lv() -> LV {
    let in_co = may::coroutine::is_coroutine();
    if in_co {
        INITS_CO.fetch_add(1, Ordering::SeqCst);
    } else {
        INITS_TH.fetch_add(1, Ordering::SeqCst);
    }
    LV { val: Cell::new(0), owner: Cell::new(usize::MAX), id: NEXT_ID.fetch_add(1, Ordering::SeqCst) % MAXV, in_co }
}

impl Drop for LV {
    fn drop(&mut self) {
        if DROPPED[self.id].swap(true, Ordering::SeqCst) {
            DOUBLE_DROP.fetch_add(1, Ordering::SeqCst);
        }
        if self.in_co {
            DROPS_CO.fetch_add(1, Ordering::SeqCst);
        }
    }
}

coroutine_local!(static K0: LV = new_lv());
coroutine_local!(static K1: LV = new_lv());
coroutine_local!(static K2: LV = new_lv());

/// access key k as actor `me`; returns (value, problem)
fn access(k: u32, me: usize, set: Option<i64>) -> (i64, Option<&'static str>) {
    let f = |v: &LV| {
        let mut problem = None;
        if DROPPED[v.id].load(Ordering::SeqCst) {
            problem = Some("value-used-after-its-drop");
        }
        let o = v.owner.get();
        if o == usize::MAX {
            v.owner.set(me);
        } else if o != me {
            problem = Some("value-of-another-coroutine-visible");
        }
        let old = v.val.get();
        if let Some(x) = set {
            v.val.set(x);
        }
        (old, problem)
    };
    match k {
        0 => K0.with(f),
        1 => K1.with(f),
        _ => K2.with(f),
    }
}

struct Shared {
    problems: std::sync::Mutex<Vec<(String, String)>>,
    pairs: std::sync::Mutex<std::collections::HashSet<(usize, u32)>>,
    blockers: Vec<std::sync::Mutex<Option<Arc<Blocker>>>>,
    cos: Vec<std::sync::Mutex<Option<may::coroutine::Coroutine>>>,
    probe_done: Vec<AtomicBool>,
    /// virtual time at which the final park_timeout of an actor expires (0 = not there yet)
    deadline: Vec<std::sync::atomic::AtomicU64>,
    socks: Vec<std::sync::Mutex<Option<may::os::unix::net::UnixStream>>>,
}

fn actor_body(sh: &Shared, states: &States, ai: usize, ops: &[Op], is_co: bool) -> i64 {
    let _dg = DoneGuard(states, ai);
    let fail = |fp: &str, d: String| sh.problems.lock().unwrap().push((fp.to_string(), d));
    let mut model = [0i64; 3];
    for (k, op) in ops.iter().enumerate() {
        states.enter(ai, k, op.0);
        match op.0 {
            PROBE if is_co => {
                match op.1 {
                    1 => {
                        let b = Blocker::current();
                        *sh.blockers[ai].lock().unwrap() = Some(b.clone());
                        let t0 = sched::now_ns();
                        let r = b.park(Some(Duration::from_secs(3600)));
                        let el = sched::now_ns() - t0;
                        match r {
                            Ok(()) => {}
                            Err(may::coroutine::ParkError::Timeout) if el >= 3_600_000_000_000 => fail("first-park-not-woken", format!("coroutine {ai}")),
                            Err(e) => fail("fresh-coroutine-inherited-stale-result", format!("coroutine {ai}: first Blocker::park returned {e:?} after {el} ns")),
                        }
                        let old = sh.blockers[ai].lock().unwrap().take();
                        drop(old);
                    }
                    2 => {
                        *sh.cos[ai].lock().unwrap() = Some(may::coroutine::current());
                        may::coroutine::park_timeout(Duration::from_secs(3600));
                    }
                    4 => {
                        // the first blocking call is a socket read without time-out: a stale
                        // time-out / cancel result would come back as its error
                        use std::io::Read;
                        let (mut a, b) = may::os::unix::net::UnixStream::pair().unwrap();
                        *sh.socks[ai].lock().unwrap() = Some(b);
                        let mut buf = [0u8; 1];
                        match a.read(&mut buf) {
                            Ok(1) => {}
                            r => fail("fresh-coroutine-inherited-stale-result", format!("coroutine {ai}: first socket read returned {r:?}")),
                        }
                    }
                    3 => {
                        let t0 = sched::now_ns();
                        may::coroutine::sleep(Duration::from_nanos(op.2 as u64));
                        if sched::now_ns() - t0 < op.2 as u64 {
                            fail("fresh-coroutine-first-sleep-returned-early", format!("coroutine {ai}"));
                        }
                    }
                    _ => {}
                }
                sh.probe_done[ai].store(true, Ordering::SeqCst);
            }
            GET | SET => {
                let key = op.1 % 3;
                sh.pairs.lock().unwrap().insert((ai, key));
                let (old, problem) = access(key, ai, if op.0 == SET { Some(op.2 as i64) } else { None });
                if let Some(p) = problem {
                    fail(p, format!("actor {ai} key {key}"));
                }
                if old != model[key as usize] {
                    fail("local-value-differs-from-own-last-write", format!("actor {ai} key {key}: read {old}, own last write {}", model[key as usize]));
                }
                if op.0 == SET {
                    model[key as usize] = op.2 as i64;
                }
            }
            YIELD => may::coroutine::yield_now(),
            SLEEP => may::coroutine::sleep(Duration::from_nanos(op.1 as u64)),
            E_RET => return op.1 as i64,
            E_PANIC => panic!("mv-expected-panic-{ai}"),
            E_CANCELLED => {
                // op.2 == 1: a value on the stack whose destructor reaches a yield point while
                // the coroutine is unwound by the cancel (for a cancelled coroutine that yield
                // returns at once; whatever it leaves behind must not reach the next coroutine
                // on this stack)
                struct YieldOnDrop(bool);
                impl Drop for YieldOnDrop {
                    fn drop(&mut self) {
                        if self.0 {
                            may::coroutine::yield_now();
                        }
                    }
                }
                let _y = YieldOnDrop(op.2 == 1);
                *sh.cos[ai].lock().unwrap() = Some(may::coroutine::current());
                sh.probe_done[ai].store(true, Ordering::SeqCst);
                may::coroutine::park();
                // a spurious wake-up is allowed: keep parking until the cancel arrives
                loop {
                    may::coroutine::park_timeout(Duration::from_millis(1));
                }
            }
            E_TIMEOUT => {
                // op.2 == 1: somebody unparks us right at the deadline (the timer's result and
                // the wake-up token arrive together; neither may be left behind for the next
                // coroutine on this stack)
                if op.2 >= 1 {
                    *sh.cos[ai].lock().unwrap() = Some(may::coroutine::current());
                    // (the park keeps its time-out in whole milliseconds, rounded up)
                    sh.deadline[ai].store(sched::now_ns() + (op.1.max(1) as u64).div_ceil(1_000_000) * 1_000_000, Ordering::SeqCst);
                }
                may::coroutine::park_timeout(Duration::from_nanos(op.1.max(1) as u64));
                return -3;
            }
            E_BLOCKER_TIMEOUT => {
                let b = Blocker::current();
                let _ = b.park(Some(Duration::from_nanos(op.1.max(1) as u64)));
                return -4;
            }
            _ => {}
        }
        states.leave(ai, k);
    }
    0
}

pub fn run(case: &Case) -> Outcome {
    let mut out = Outcome::new();
    let n = case.actors.len();
    let wave = case.cfg(0).clamp(1, 3) as usize;
    let sh = Arc::new(Shared {
        problems: std::sync::Mutex::new(vec![]),
        pairs: std::sync::Mutex::new(Default::default()),
        blockers: (0..n).map(|_| std::sync::Mutex::new(None)).collect(),
        cos: (0..n).map(|_| std::sync::Mutex::new(None)).collect(),
        probe_done: (0..n).map(|_| AtomicBool::new(false)).collect(),
        deadline: (0..n).map(|_| std::sync::atomic::AtomicU64::new(0)).collect(),
        socks: (0..n).map(|_| std::sync::Mutex::new(None)).collect(),
    });
    let desc: Vec<String> = case.actors.iter().map(|a| if a.role == 0 { "coroutine".to_string() } else { "thread".to_string() }).collect();
    let states = States::install(desc, opname);
    // thread actors run along
    let mut ths = vec![];
    for (ai, a) in case.actors.iter().enumerate().filter(|(_, a)| a.role == 1) {
        let (sh2, st2, ops) = (sh.clone(), states.clone(), a.ops.clone());
        ths.push(sched::vspawn("local-thread", move || actor_body(&sh2, &st2, ai, &ops, false)));
    }
    let cos: Vec<usize> = (0..n).filter(|&i| case.actors[i].role == 0).collect();
    let mut abnormal_before_reuse = false;
    let mut prev_abnormal = false;
    for chunk in cos.chunks(wave) {
        if prev_abnormal {
            abnormal_before_reuse = true;
        }
        prev_abnormal = false;
        let mut hs = vec![];
        let mut keep_socks = vec![];
        for &ai in chunk {
            let (sh2, st2, ops) = (sh.clone(), states.clone(), case.actors[ai].ops.clone());
            hs.push((ai, unsafe { may::coroutine::spawn(move || actor_body(&sh2, &st2, ai, &ops, true)) }));
        }
        // serve the probes and the endings that need a partner
        for &ai in chunk {
            let ops = &case.actors[ai].ops;
            let probe = ops.first().filter(|o| o.0 == PROBE).map(|o| o.1).unwrap_or(0);
            if probe == 1 {
                if poll_until(|| sh.blockers[ai].lock().unwrap().is_some() || sh.probe_done[ai].load(Ordering::SeqCst), 5_000_000_000) {
                    let b = sh.blockers[ai].lock().unwrap().clone();
                    if let Some(b) = b {
                        b.unpark();
                    }
                }
            } else if probe == 2 {
                if poll_until(|| sh.cos[ai].lock().unwrap().is_some(), 5_000_000_000) {
                    let c = sh.cos[ai].lock().unwrap().clone().unwrap();
                    c.unpark();
                }
            } else if probe == 4 && poll_until(|| sh.socks[ai].lock().unwrap().is_some() || sh.probe_done[ai].load(Ordering::SeqCst), 5_000_000_000) {
                use std::io::Write;
                sleep_ns(2_000);
                if let Some(mut b) = sh.socks[ai].lock().unwrap().take() {
                    let _ = b.write_all(b"x");
                    sched::kick_idle();
                    // (closed only after the byte: the reader must not see the end of the stream)
                    keep_socks.push(b);
                }
            }
        }
        for &ai in chunk {
            let ending = case.actors[ai].ops.last().map(|o| o.0).unwrap_or(E_RET);
            if ending == E_TIMEOUT && case.actors[ai].ops.last().unwrap().2 >= 1 {
                // unpark it at its deadline, give or take a few hundred ns
                let reached = poll_until(|| sh.deadline[ai].load(Ordering::SeqCst) != 0, 5_000_000_000);
                if reached {
                    let at = sh.deadline[ai].load(Ordering::SeqCst) + case.actors[ai].ops.last().unwrap().2 as u64 - 1;
                    let now = sched::now_ns();
                    if at > now + 400 {
                        sleep_ns(at - now - 400);
                    }
                    let c = sh.cos[ai].lock().unwrap().clone();
                    if let Some(c) = c {
                        c.unpark();
                    }
                }
            }
            if ending == E_CANCELLED {
                // wait until it has reached its final park, then cancel it
                let reached = poll_until(
                    || {
                        let v = states.0.st[ai].load(Ordering::SeqCst);
                        ((v >> 8) & 0xff) as u8 == E_CANCELLED && sh.cos[ai].lock().unwrap().is_some()
                    },
                    5_000_000_000,
                );
                let _ = reached;
                sleep_ns(case.actors[ai].ops.last().unwrap().1 as u64);
                let c = sh.cos[ai].lock().unwrap().clone();
                if let Some(c) = c {
                    unsafe { c.cancel() };
                }
            }
        }
        for (ai, h) in hs {
            let ending = case.actors[ai].ops.last().cloned().unwrap_or(Op(E_RET, 0, 0));
            let e = classify(h.join());
            let ok = match (&e, ending.0) {
                (End::Ok(v), E_RET) => *v == ending.1 as i64,
                (End::Ok(v), E_TIMEOUT) => *v == -3,
                (End::Ok(v), E_BLOCKER_TIMEOUT) => *v == -4,
                (End::Panic(s), E_PANIC) => *s == format!("mv-expected-panic-{ai}"),
                (End::Cancel, E_CANCELLED) => true,
                (End::Ok(v), _) => *v == 0 && !matches!(ending.0, E_PANIC | E_CANCELLED),
                _ => false,
            };
            if !ok {
                let fp = if matches!(e, End::Cancel) { "fresh-coroutine-was-cancelled" } else { "join-outcome-wrong" };
                out.fail(fp, format!("coroutine {ai}: join = {} ending {}", e.kind(), opname(ending.0)));
            }
            if ending.0 != E_RET {
                prev_abnormal = true;
            }
            // the handles of this coroutine go away
            *sh.cos[ai].lock().unwrap() = None;
        }
    }
    for t in ths {
        if t.join().is_err() {
            out.fail("thread-actor-panicked", String::new());
        }
    }
    crate::child::settle();
    for (fp, d) in sh.problems.lock().unwrap().iter() {
        out.fail(fp, d.clone());
    }
    // initialiser once per (actor, key), dropped exactly once by now
    let pairs = sh.pairs.lock().unwrap();
    let co_pairs = pairs.iter().filter(|(a, _)| case.actors[*a].role == 0).count();
    let th_pairs = pairs.len() - co_pairs;
    let (ic, it, dc) = (INITS_CO.load(Ordering::SeqCst), INITS_TH.load(Ordering::SeqCst), DROPS_CO.load(Ordering::SeqCst));
    if ic != co_pairs {
        out.fail("initialiser-count", format!("{ic} initialisations for {co_pairs} (coroutine, key) pairs"));
    }
    if it != th_pairs {
        out.fail("initialiser-count-threads", format!("{it} initialisations for {th_pairs} (thread, key) pairs"));
    }
    if dc != ic {
        out.fail(if dc < ic { "local-value-leaked" } else { "local-value-dropped-twice" }, format!("{dc} drops of {ic} coroutine-local values after all coroutines ended"));
    }
    if DOUBLE_DROP.load(Ordering::SeqCst) > 0 {
        out.fail("local-value-dropped-twice", String::new());
    }
    let pre = sched::preempts() > 0;
    out.flag_if(abnormal_before_reuse, "stack_reused_after_abnormal_end");
    out.flag_if(pre, "preempted");
    out.flag_if(co_pairs > 0, "locals_used");
    out.flag_if(th_pairs > 0, "thread_fallback_used");
    out.flag_if(cos.len() > case.pool as usize, "more_coroutines_than_pool");
    for a in &case.actors {
        if let Some(o) = a.ops.last() {
            if o.0 >= E_PANIC {
                out.flag(opname(o.0));
            }
        }
    }
    out.nontrivial = pre && co_pairs >= 2 && abnormal_before_reuse;
    out
}

pub fn strategy(g: &GenCfg) -> BoxedStrategy<Case> {
    let g2 = g.clone();
    let step = prop_oneof![
        3 => (0u32..3).prop_map(|k| Op(GET, k, 0)),
        3 => (0u32..3, 1u32..1000).prop_map(|(k, v)| Op(SET, k, v)),
        2 => Just(Op(YIELD, 0, 0)),
        1 => (1u32..300_000).prop_map(|ns| Op(SLEEP, ns, 0)),
    ];
    let ending = prop_oneof![
        4 => (0u32..1000).prop_map(|v| Op(E_RET, v, 0)),
        2 => Just(Op(E_PANIC, 0, 0)),
        2 => (0u32..20_000, 0u32..2).prop_map(|(d, y)| Op(E_CANCELLED, d, y)),
        2 => (1u32..2_000_000, prop_oneof![1 => Just(0u32), 2 => 1u32..12_000]).prop_map(|(d, r)| Op(E_TIMEOUT, d, r)),
        2 => (1u32..2_000_000).prop_map(|d| Op(E_BLOCKER_TIMEOUT, d, 0)),
    ];
    let co = (prop_oneof![1 => Just(0u32), 3 => Just(1u32), 2 => Just(2u32), 2 => Just(3u32), 2 => Just(4u32)], 1u32..400_000, proptest::collection::vec(step.clone(), 0..6), ending).prop_map(|(probe, d, steps, e)| {
        let mut ops = vec![Op(PROBE, probe, d)];
        ops.extend(steps);
        ops.push(e);
        Actor { ctx: CO, role: 0, ops }
    });
    let th = proptest::collection::vec(step, 1..6).prop_map(|ops| Actor { ctx: TH, role: 1, ops });
    (proptest::collection::vec(co, 2..=10), proptest::collection::vec(th, 0..=2), 1i64..=3, gen::config(&g2), 1u8..=2, gen::schedule(&g2, false))
        .prop_map(|(mut actors, ths, wave, (workers, _p, feat), pool, sched)| {
            actors.extend(ths);
            Case { fam: "local".into(), workers, pool, feat, cfg: vec![wave], actors, sched, weak: 0 }
        })
        .boxed()
}
