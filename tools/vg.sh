#!/bin/bash
# tools/vg.sh <replay.json> : run the case under valgrind and print only heap-block reports (trusted ones)
f="$1"; CASE=$(python3 -c "
import json,sys;v=json.load(open('$f'));print(json.dumps(v.get('case',v)))")
BIN=${MV_BIN:-/verif/engine/target/ws/debug/mv}
valgrind --undef-value-errors=no -q --num-callers=16 $BIN child "$CASE" 2>&1 | python3 -c "
import sys
txt=sys.stdin.read()
blocks=txt.split('== \n')
n=0
for b in blocks:
    if 'free\'d' in b or 'inside a block' in b or 'alloc\'d' in b:
        lines=[l for l in b.split('\n') if ' at 0x' in l or ' by 0x' in l or 'Invalid' in l or 'Address' in l or 'Block was' in l]
        keep=[l[:230] for l in lines if ('Invalid' in l or 'Address' in l or 'Block' in l or 'may' in l or 'mv::' in l)]
        print('\n'.join(keep[:26])); print('-----'); n+=1
        if n>=int('${2:-3}'): break
for l in txt.split('\n'):
    if l.startswith('VERDICT') or l.startswith('PANIC') or 'fatal' in l: print(l[:300])
"
