#!/opt/veriftools/pyvenv/bin/python
import json, jsonschema, sys, glob
m = json.load(open('/verif/MANIFEST.json'))
jsonschema.validate(m, json.load(open('/root/.vp/MANIFEST.schema.json')))
print('manifest ok:', [c['property_id'] for c in m['checks']], 'n/a:', [n['property_id'] for n in m.get('not_applicable', [])])
es = json.load(open('/root/.vp/EVIDENCE.schema.json'))
for c in m['checks']:
    try:
        e = json.load(open(c['evidence_file']))
        jsonschema.validate(e, es)
        cv = e['coverage']
        print(c['property_id'], 'evidence ok', e['tier'], cv['evaluations'], cv['distinct_nontrivial'], 'violations', e.get('violations'))
    except Exception as ex:
        print(c['property_id'], 'EVIDENCE PROBLEM', str(ex)[:200])
