#!/usr/bin/env python3
"""seeded breaking changes (produced by sub-agents that saw only the property text)

  tools/seed.py confirm <PROP> <A|B> --demo-path <rel path in tree> --demo-cmd "<cargo test ...>" [--runs N]
        in the scratch worktree /tmp/seed/<PROP>: the demonstration passes on the unchanged tree,
        the patch applies, both feature sets build, the 249 repository tests pass, the demonstration
        fails; then the worktree is restored.  On success the change is stored as
        /verif/seeded/<PROP>-<A|B>/{patch.diff, demo.rs, meta.json}
  tools/seed.py check <PROP>-<A|B> [--tier quick|thorough] [--cases N] [--prop P]
        apply the stored patch to /repo, run the check, undo (git checkout), record the result in meta.json
  tools/seed.py table          markdown table of all stored changes and results
"""
import subprocess, sys, os, json, re, time, shutil, argparse

V = '/verif'
SUITE = "cargo nextest run --workspace --no-fail-fast --tool-config-file pb:/w/lib/nextest.toml --profile pb --test-threads 8 --offline"


def sh(cmd, cwd=None, timeout=3600):
    try:
        r = subprocess.run(cmd, shell=True, cwd=cwd, capture_output=True, text=True, timeout=timeout)
        return r.returncode, r.stdout + r.stderr
    except subprocess.TimeoutExpired as e:
        return 124, (e.stdout or b'').decode(errors='replace') if isinstance(e.stdout, bytes) else (e.stdout or '') + '\nTIMEOUT'


def confirm(a):
    wt = f'{a.root}/{a.prop}'
    out = f'{a.root}/{a.prop}-out'
    patch = f'{out}/{a.which}.patch.diff'
    demo = f'{out}/{a.which}.demo.rs'
    assert os.path.exists(patch) and os.path.exists(demo), 'missing files'
    sh('git checkout -- . && git clean -fdq -e target', cwd=wt)
    # bring the scratch worktree to /repo's HEAD so the patch is confirmed against the current tree
    head = sh('git -C /repo rev-parse HEAD')[1].strip()
    sh(f'git checkout -q --detach {head}', cwd=wt)
    res = {'property': a.prop, 'which': a.which, 'base_commit': head, 'demo_path': a.demo_path, 'demo_cmd': a.demo_cmd}
    dst = os.path.join(wt, a.demo_path)
    os.makedirs(os.path.dirname(dst), exist_ok=True)
    shutil.copy(demo, dst)
    ok = True
    # 1. the demonstration passes on the unchanged tree
    passes = 0
    for i in range(a.runs_orig):
        rc, o = sh(a.demo_cmd, cwd=wt, timeout=a.timeout)
        passes += rc == 0
    res['demo_on_original'] = f'{passes}/{a.runs_orig} runs pass'
    ok &= passes == a.runs_orig
    # 2. the patch applies, builds, the suite passes
    rc, o = sh(f'git apply {patch}', cwd=wt)
    res['applies'] = rc == 0
    if rc != 0:
        print(o)
        ok = False
    else:
        rc1, o1 = sh('cargo build --offline 2>&1 | tail -3', cwd=wt)
        rc2, o2 = sh('cargo build --offline --no-default-features 2>&1 | tail -3', cwd=wt)
        res['builds'] = 'error' not in o1 and 'error' not in o2
        ok &= res['builds']
        suite = []
        os.remove(dst)
        for i in range(2):
            rc, o = sh(SUITE, cwd=wt, timeout=1800)
            m = re.search(r'(\d+) tests run: (\d+) passed', o)
            suite.append(m.group(0) if m else f'rc={rc}')
            ok &= bool(m) and m.group(1) == m.group(2) == '249'
        res['suite_with_change'] = suite
        fails = 0
        sample = ''
        shutil.copy(demo, dst)
        for i in range(a.runs):
            rc, o = sh(a.demo_cmd, cwd=wt, timeout=a.timeout)
            if rc != 0:
                fails += 1
                if not sample:
                    ls = [l for l in o.splitlines() if 'panicked' in l or 'FAILED' in l or 'signal' in l or 'TIMEOUT' in l]
                    sample = ' | '.join(ls[:3])[:400]
        res['demo_on_changed'] = f'{fails}/{a.runs} runs fail'
        res['demo_failure_sample'] = sample
        ok &= fails > 0
    sh('git checkout -- . && git clean -fdq -e target', cwd=wt)
    res['confirmed'] = bool(ok)
    print(json.dumps(res, indent=1))
    if ok:
        d = f'{V}/seeded/{a.prop}-{a.tag}{a.which}'
        os.makedirs(d, exist_ok=True)
        shutil.copy(patch, f'{d}/patch.diff')
        shutil.copy(demo, f'{d}/demo.rs')
        meta = {'id': f'{a.prop}-{a.tag}{a.which}', 'property': a.prop, 'description': a.desc, 'needs': a.needs, 'confirmation': res, 'checks': {}}
        if os.path.exists(f'{d}/meta.json'):
            old = json.load(open(f'{d}/meta.json'))
            meta['checks'] = old.get('checks', {})
        json.dump(meta, open(f'{d}/meta.json', 'w'), indent=1)
        print('stored', d)
    return 0 if ok else 1


def check(a):
    d = f'{V}/seeded/{a.id}'
    meta = json.load(open(f'{d}/meta.json'))
    prop = a.prop or meta['property']
    assert sh('git -C /repo status --porcelain --untracked-files=no')[1].strip() == '', 'repo not clean'
    rc, o = sh(f'git -C /repo apply {d}/patch.diff')
    if rc != 0:
        print('patch does not apply to /repo:', o)
        return 2
    try:
        t = time.time()
        cmd = f'./check {prop} --tier {a.tier}' + (f' --cases {a.cases}' if a.cases else '') + (' --no-fuzz' if a.no_fuzz else '')
        rc, o = sh(cmd + ' 2>&1', cwd=V, timeout=6 * 3600)
        viol = re.findall(r'^violation: (.{0,160})', o, re.M)
        m = re.search(r'(\d+) cases,', o)
        status = 'caught' if rc == 1 else ('missed' if rc == 0 else f'inconclusive(rc={rc})')
        key = f'{prop} {a.tier}' + (f' --cases {a.cases}' if a.cases else '')
        meta['checks'][key] = {'result': status, 'cases': int(m.group(1)) if m else None, 'seconds': round(time.time() - t), 'violations': viol[:3]}
        print(a.id, key, '->', status, m.group(0) if m else '', f'{time.time()-t:.0f}s', viol[:2])
        if rc not in (0, 1):
            print(o[-800:])
    finally:
        sh('git -C /repo checkout -- .')
    json.dump(meta, open(f'{d}/meta.json', 'w'), indent=1)
    # never leave replays of seeded changes behind
    sh(f'find {V}/replays/found -type f -delete')
    return 0


def table(a):
    rows = []
    for n in sorted(os.listdir(f'{V}/seeded')):
        p = f'{V}/seeded/{n}/meta.json'
        if not os.path.exists(p):
            continue
        m = json.load(open(p))
        ch = '; '.join(f"{k}: {v['result']}" + (f" after {v['cases']} cases" if v.get('cases') else '') for k, v in m['checks'].items())
        rows.append(f"| {m['id']} | {m['description']} | {m['needs']} | {ch} |")
    print('| id | change | needs | result |\n|---|---|---|---|')
    print('\n'.join(rows))
    return 0


def main():
    ap = argparse.ArgumentParser()
    sp = ap.add_subparsers(dest='cmd')
    c = sp.add_parser('confirm')
    c.add_argument('prop'); c.add_argument('which')
    c.add_argument('--demo-path', required=True); c.add_argument('--demo-cmd', required=True)
    c.add_argument('--runs', type=int, default=5); c.add_argument('--runs-orig', type=int, default=2)
    c.add_argument('--timeout', type=int, default=300)
    c.add_argument('--desc', default=''); c.add_argument('--needs', default='')
    c.add_argument('--root', default='/tmp/seed'); c.add_argument('--tag', default='')
    k = sp.add_parser('check')
    k.add_argument('id'); k.add_argument('--tier', default='quick'); k.add_argument('--cases', type=int, default=0)
    k.add_argument('--prop', default=''); k.add_argument('--no-fuzz', action='store_true')
    sp.add_parser('table')
    a = ap.parse_args()
    sys.exit({'confirm': confirm, 'check': check, 'table': table}[a.cmd](a))


main()
