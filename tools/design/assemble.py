#!/usr/bin/env python3
"""assembles /verif/DESIGN.md from the phase-0 design text and the build-time sections"""
import os, re, subprocess, json
D = os.path.dirname(os.path.abspath(__file__))
V = os.path.dirname(os.path.dirname(D))
rd = lambda n: open(os.path.join(D, n)).read()
s = rd('phase0.md')
# 1. status
a = s.index('Status: design only (phase 0).')
b = s.index('Technique family: every property is stated')
s = s[:a] + rd('status.md') + '\n' + s[b:]
s = s.replace("No property is listed as not applicable. What the family cannot give (exhaustiveness,\nweak-memory behaviours, unbounded programs) is stated in section 9 and per property.",
              "No property is listed as not applicable. What the family cannot give (exhaustiveness,\nmost weak-memory behaviours, unbounded programs) is stated in section 9 and per property.")
# 2. section 2.2 additions: before "### 2.3"
a = s.index('### 2.3 What runs inside the child')
s = s[:a] + rd('sec22.md').lstrip('\n') + '\n' + s[a:]
# 2b. notes on what was not built as planned
a = s.index('## 3. Hooks in `/repo`')
a = s.rindex('---------------------------------------------------------------------------------', 0, a)
s = s[:a] + rd('sec25note.md').lstrip('\n') + '\n' + s[a:]
s = s.replace("Thorough tier, optional refinement (same family: coverage-guided fuzzing): the child", "Thorough tier, optional refinement (same family: coverage-guided fuzzing; **not built** - the time went into fault models and aimed generators instead): the child")
# 3. hook table rows: after the SegQueue shim row
row = "| `SegQueue` shim |"
a = s.index(row)
e = s.index('\n', a)
s = s[:e + 1] + rd('sec3add.md') + s[e + 1:]
# 3b. per-property deltas before C01
a = s.index('### C01 - every spawned coroutine runs exactly once')
s = s[:a] + rd('sec5add.md') + s[a:]
# 4. sections 7, 8, 9
a = s.index('## 7. Defects already visible on the unchanged tree')
b = s.index('## Appendix A. Interfaces and algorithms')
sec8 = rd('sec8.md')
mut = os.path.join(V, 'tools', 'mutants.last.txt')
if os.path.exists(mut):
    rows = []
    for l in open(mut):
        m = re.match(r'(KILLED|SURVIVED|EXIT\d+|SKIP)\s+(M\d+) (.*?) \[(C\d+)\] after (\S+) cases, (\d+)s :: (.*)', l.strip())
        if m:
            st, mid, name, prop, cases, secs, viol = m.groups()
            v = re.findall(r"'([^']{0,70})", viol)
            rows.append(f"| {mid} | {name} | {prop} | {'killed' if st == 'KILLED' else st.lower()} after {cases} cases | {v[0].split(' :: ')[0] if v else ''} |")
    sec8 = sec8.replace('<!-- MUTANTS -->', '| mutant | change | check | result | first fingerprint |\n|---|---|---|---|---|\n' + '\n'.join(rows))
tab = subprocess.run([os.path.join(V, 'tools', 'seed.py'), 'table'], capture_output=True, text=True).stdout
sec8 = sec8.replace('<!-- SEEDED -->', tab)
notes = os.path.join(D, 'seeded_notes.md')
sec8 = sec8.replace('<!-- SEEDED-NOTES -->', open(notes).read() if os.path.exists(notes) else '')
sep = '\n---------------------------------------------------------------------------------\n\n'
s = s[:a] + rd('sec7.md') + sep + sec8 + sep + rd('sec9.md') + sep + s[b:]
# 4b. section 6 numbers as built
s = s.replace("| quick | 5000-8000 cases: 3-8 s | regress replays, 32 valgrind cases (2 s), incremental build 1-12 s | 10-30 s |",
              "| quick | 12 000-16 000 cases: 8-15 s | regress replays, 32 valgrind cases (2 s), incremental build 1-12 s | 15-40 s |")
s = s.replace("the thorough tier repeats\nthe regress replays on an optimised build without debug assertions.", "(the planned second, optimised build for the thorough tier was not built).")
s = s.replace("| thorough | 200k-400k cases over both feature sets: 2-5 min | 400 valgrind cases (25 s); C03/C04/C19: three libFuzzer campaigns of 2M inputs on 16 jobs (~3.5 min each incl. the empty-corpus run) | 3-9 min |",
              "| thorough | 100k-400k cases over both feature sets: 1-5 min | 400 valgrind cases (1-2 min); C03/C04/C19: libFuzzer + ASan campaigns (125 000 runs x 16 jobs, from an empty and from a seeded corpus) | 3-15 min |")
# 5. appendix B
a = s.index('## Appendix B. Order of work for the following phases')
b = s.index('## Appendix C. Pitfalls already hit in the prototype')
s = s[:a] + rd('appendixB.md') + '\n' + s[b:]
open(os.path.join(V, 'DESIGN.md'), 'w').write(s)
print('DESIGN.md', len(s.splitlines()), 'lines')
