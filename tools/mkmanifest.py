#!/usr/bin/env python3
"""regenerates /verif/MANIFEST.json from the table below (keep it valid at all times)"""
import json, subprocess, os
V = os.path.dirname(os.path.dirname(os.path.abspath(__file__)))
ALL = ["C%02d" % i for i in range(1, 20)]
# property -> (families, level text, level note)
CLAIMED = {
 "C03": ("q_mpsc", "Generated-schedule search directly on may_queue's mpsc and spsc block queues (producer threads, one consumer, schedule points at the queue's own atomic operations and slot writes, start offsets around the block boundaries, drop with values inside); oracle = exactly-once ledger with magic check (never an unpushed/uninitialised value), per-producer order, real-time order across producers, empty answers of pop/bulk_pop/peek/len/is_empty legal only if no completely pushed value was outstanding, len() bounds, peek == next pop (FIFO linearizability for one consumer). Thorough tier adds libFuzzer+AddressSanitizer campaigns of the same oracle in-process (use of freed blocks).", "5/C03"),
 "C04": ("q_spmc", "Generated-schedule search directly on may_queue::spmc (Local/Steal and raw Queue API) with an owner that keeps servicing while 1-3 stealers run, a LIFO size-class allocator in the child so that freed blocks are re-used at the same address (ABA by construction) and a generator component built to reach the ABA window; oracle = every pushed task obtained exactly once (magic check = never an uninitialised slot), owner pops ascending, ids inside a stolen batch ascending with the returned task newest, every claiming operation returns (exact deadlock/livelock detection). Thorough tier adds libFuzzer+ASan campaigns.", "5/C04"),
 "C19": ("q_list", "Generated-schedule search directly on may_queue::mpsc_list_v1 (1-3 producers handing entry handles to a consumer that pops, pop_ifs, peeks, removes live and already consumed handles); oracle = every entry consumed exactly once by exactly one of pop/pop_if/remove, remove of a consumed entry returns None, pop order = push order per producer and in real time across producers, empty answers legal, is_head false only if the list could have been non-empty and true only if it could have been empty during the push. Thorough tier adds libFuzzer+ASan campaigns (node memory).", "5/C19"),
 "C13": ("panic", "Generated-schedule search over 3-12 coroutines on small pools whose bodies take Mutex / RwLock sections and end in a value or in a panic outside any lock, while holding the Mutex, while holding the write guard, inside a scoped child or inside a select arm, with optional cancels and later coroutines spawned after the first wave; oracle = join() outcome equals the closure's ending (value, exact panic message, Cancel only for cancel targets), later coroutines and recycled stacks work (worker survived), lock released after the panic, poison flag set iff a panic - not a cancel - dropped a guard (never poisoned without a panic inside), exclusion and lost-update checks, scope / poll re-raise the child's payload.", "5/C13"),
 "C15": ("local", "Generated-schedule search over coroutines run in joined waves on a pool of 1-2 stacks (recycling with generated histories: normal end, panic, cancelled while parked, expired park_timeout / Blocker park) plus threads, all using three coroutine_local! keys; oracle = per-actor model (every read returns the actor's own last write or the initial value), owner tag never foreign, value never used after its drop, initialiser count == number of (actor, key) pairs, drops == initialisations at quiescence (no leak, no double drop), the first blocking call of every fresh coroutine returns its model result (no stale Timeout/Canceled), a fresh coroutine is never cancelled.", "5/C15"),
 "C16": ("cqueue", "Generated-schedule search over cqueue scopes (1-4 arms with immediate / channel / sleep / semaphore top halves, 1-3 events, optional panics, feeders at generated times, 1-6 timed or untimed polls, Selector::remove) and the select! macro with nearly simultaneous arms; oracle = per poll the returned arm's bottom-half counter grew by exactly one and no other arm's did, event sequence numbers per arm in order without duplicates, bottom <= top <= bottom+1, Finished only when every arm has ended, Timeout only after d, no arm alive after the scope, arm panic re-raised in the poller, select! returns an arm with top and bottom run once and nothing executing or running later.", "5/C16"),
 "C14": ("scope", "Generated-schedule search over coroutine::scope (with nested scopes), join! inside a select arm that gets cancelled (safe code), and cqueue scopes with looping arms; faults: owner panics in the body, owner cancelled at a generated time, child panics; oracle = frame tombstone (no child step observes the borrowed frame dead), no child still running when the owner has ended, child panic reaches the owner, owner outcome consistent with the injected fault, no crash, no hang.", "5/C14"),
 "C01": ("spawn", "Generated-schedule search over spawn trees of up to 16 coroutines (spawned from the main thread, user threads and other coroutines, with builder options and small pools), bodies that yield/sleep/park/lock/spawn and end in a value or a panic, spawners that wait with join, wait(), is_done() polling or cancel; oracle = execution counter exactly 1, residency flag never found set (never on two OS threads at once), join() result equals the closure's outcome, completion never reported before the closure's last action, every join returns (exact deadlock detection).", "5/C01"),
 "C02": ("park", "Generated-schedule search over park/unpark protocols: coroutine::park / park_timeout(1h) and fresh Blockers parked in thread and coroutine context over several rounds, unparkers calling unpark 1-3 times per round after the previous park returned; oracle = every park returns (exact deadlock detection; a 1 h time-out that actually elapses in virtual time is a lost wake-up), Blocker::park reports Ok only after an unpark on that blocker, Timeout only after the deadline, never Canceled.", "5/C02"),
 "C09": ("cancel", "Generated-schedule search: a target coroutine owning drop-counted stack values (and optionally a second Mutex) runs 1-4 blocking operations (park, sleep, Mutex::lock, Semphore::wait, Condvar::wait, mpsc/mpmc recv, join, SyncFlag::wait, RwLock::write, cqueue poll) while a granter issues the awaited events and a canceller cancels it at a generated time, with bystanders on the same primitives; oracle = join returns Cancel (or Ok only after all operations), no hang (exact deadlock/livelock detection), stack values dropped exactly once when join returns, held mutex released and not poisoned, waited-on primitives free and conserving permits/tickets, bystanders all complete and never see a cancel, a sleep that starts after cancel() returned never completes. Socket I/O cancellation is checked by C18.", "5/C09"),
 "C05": ("mutex", "Generated-schedule search over lock/try_lock programs of 2-5 mixed thread/coroutine lockers with generated cancellation of coroutine lockers; oracle = occupancy counter (never two holders, try_lock never succeeds while held), lost-update check on the protected counter, lock free and not poisoned at the end, exact deadlock detection for stranded waiters.", "5/C05"),
 "C08": ("timed", "Generated-schedule search with virtual time and generated stall faults over every timed API (sleep, recv_timeout, Semphore/SyncFlag/Condvar wait_timeout, cqueue poll, Blocker::park, coroutine::park_timeout) and durations from 0 to hours, with an event actor placed before/at/after the deadline; oracle = never early (virtual clock), result kind consistent with the observed event, always returns (exact deadlock/livelock detection), promptness bound in stall-free cases.", "5/C08"),
 "C10": ("sem", "Generated-schedule search over Semphore / SyncFlag programs (wait, wait_timeout, try_wait, post/fire, cancellation, stall faults); oracle = successes never exceed permits made available, value = init + posts - successes at quiescence, every wait returns when permits suffice (deadlock detector), SyncFlag latch semantics from logical call/return stamps.", "5/C10"),
 "C11": ("condvar", "Generated-schedule search over (a) a ticket protocol on Mutex+Condvar with timed waiters that give up, cancellation and exactly sufficient grants, (b) Barrier over several generations, (c) WaitGroup; oracle = every waiter that must finish does (exact deadlock detection = lost notification), mutex held exclusively on return from wait, timed_out only after d, one leader per generation and no early release, wait() returns only after all other clones were dropped.", "5/C11"),
 "C12": ("rwlock", "Generated-schedule search over read/write/try_read/try_write/panic-while-writing programs with guards recovered from PoisonError and cancellation; oracle = reader/writer occupancy counter, no guard drop panics, try_write succeeds after all guards are dropped, poison flag consistent, every blocked locker returns (deadlock detector).", "5/C12"),
 "C06": ("chan", "Generated-schedule search: every case is a generated channel program (mpsc/spsc/mpmc, thread and coroutine endpoints) plus a generated schedule, executed on the real runtime under the deterministic baton scheduler in a fresh process; oracle = exactly-once ledger, per-sender order, FIFO-linearizability clauses for the single-consumer kinds, exact deadlock detection for 'a blocked recv is woken by the send'. It samples schedules, it does not enumerate them.", "5/C06"),
 "C07": ("chan", "Same engine, generator biased to early drops of senders/receivers and several mpmc receivers; oracle = every receive loop ends with Disconnected after draining, a send after the last receiver drop fails and returns its value, values dropped exactly once, exact deadlock detection for 'never blocks forever'.", "5/C07"),
}
NOTE = "Trusted base: the deterministic scheduler and hooks (--cfg may_verif) serialise all threads at the hooked operations (sequentially consistent interleavings only); crossbeam/parking_lot/generator/kernel internals execute atomically; bounded programs; search, not proof."
PENDING = "check not built yet in this revision (framework under construction; DESIGN.md section 5 describes the planned family)"
def main():
    commits = subprocess.run(["git", "-C", "/repo", "log", "--format=%h %s"], capture_output=True, text=True).stdout.splitlines()
    hooks = [c.split()[0] for c in commits if "verif hooks:" in c]
    checks = []
    for pid in ALL:
        if pid not in CLAIMED: continue
        fam, text, ref = CLAIMED[pid]
        checks.append({
            "property_id": pid,
            "quick_cmd": f"./check {pid} --tier quick",
            "thorough_cmd": f"./check {pid} --tier thorough",
            "evidence_file": f"/verif/evidence/{pid}.json",
            "replay_cmd_template": f"./check {pid} --replay {{path}}",
            "engine": "detsched",
            "level_claimed": {"category": "exploration", "text": text, "design_ref": f"DESIGN.md section {ref}"},
            "level_note": NOTE,
            "technique": "property-based testing: proptest-generated programs + schedules (+ stall faults) run on the real runtime under a deterministic scheduler, model/ledger/linearizability oracles, exact deadlock detection, proptest shrinking to a replay file",
        })
    m = {
        "version": 1,
        "setup_cmd": "./check --build",
        "hooks": {
            "guard": "--cfg may_verif (rustc cfg flag; RUSTFLAGS or engine/.cargo/config.toml)",
            "enable": "engine/.cargo/config.toml sets build.rustflags = [\"--cfg\", \"may_verif\"]; the engine crate depends on /repo by path, so ./check rebuilds from /repo's working tree with the hooks on",
            "baseline_off_cmd": "cd /repo && cargo nextest run --workspace --no-fail-fast --tool-config-file pb:/w/lib/nextest.toml --profile pb --test-threads 8 --offline || cargo test --workspace --no-fail-fast --offline",
            "source_commits": list(reversed(hooks)),
            "add_only": True,
        },
        "engines": [
            {"name": "qfuzz", "path": "engine/fuzz", "serves_properties": ["C03", "C04", "C19"], "kind_free_text": "cargo-fuzz / libFuzzer targets with AddressSanitizer: the same baton scheduler and queue oracles in-process, bytes decoded into (program, schedule); thorough tier only"},
            {"name": "detsched", "path": "engine", "serves_properties": sorted(CLAIMED), "kind_free_text": "Rust binary `mv`: proptest runners in the parent (16 threads), one fresh child process per generated case; the child runs the real may runtime under a deterministic baton scheduler with virtual time, generated schedules and stall faults"},
        ],
        "checks": checks,
        "not_applicable": [{"property_id": p, "reason": PENDING} for p in ALL if p not in CLAIMED],
        "notes": "Exit codes of every check: 0 held / 1 VIOLATION line printed / 2 inconclusive or infrastructure trouble (never used for a violation). Known findings: known_findings.json. Seeds: VERIF_SEED.",
    }
    json.dump(m, open(os.path.join(V, "MANIFEST.json"), "w"), indent=1)
    print("checks:", [c["property_id"] for c in checks])
main()
