#!/usr/bin/env python3
"""sensitivity runs: apply one small change to /repo, run a check, restore the tree.
   tools/mutants.py [name-prefix ...]      (results are printed, nothing is committed)
   every mutant compiles and (verified separately) passes the repository's own tests"""
import subprocess, sys, os, time, re

REPO = '/repo'
# (name, file, old, new, property, cases)
M = [
 ("M01 park: no re-check of state in subscribe", "src/park.rs",
  "        if self.state.load(Ordering::Acquire) {\n            // here may have recursive call for subscribe",
  "        if false && self.state.load(Ordering::Acquire) {\n            // here may have recursive call for subscribe", "C02", 20000),
 ("M02 park: unpark_impl does not take wait_co when state was false", "src/park.rs",
  "        if !self.state.swap(true, Ordering::AcqRel) {\n            self.wake_up(b_sync);",
  "        if self.state.swap(true, Ordering::AcqRel) {\n            self.wake_up(b_sync);", "C02", 20000),
 ("M03 mutex: unlock pops only when cnt>2", "src/sync/mutex.rs",
  "        if self.cnt.fetch_sub(1, Ordering::SeqCst) > 1 {", "        if self.cnt.fetch_sub(1, Ordering::SeqCst) > 2 {", "C05", 20000),
 ("M04 mutex: no self-service after registering", "src/sync/mutex.rs",
  "        if self.cnt.fetch_add(1, Ordering::SeqCst) == 0 {", "        if self.cnt.fetch_add(1, Ordering::SeqCst) == usize::MAX {", "C05", 20000),
 ("M05 sem: post wakes only when cnt < -1", "src/sync/semphore.rs",
  "        if cnt < 0 {\n            self.wakeup_one();", "        if cnt < -1 {\n            self.wakeup_one();", "C10", 20000),
 ("M06 sem: timed-out waiter that was unparked keeps the permit", "src/sync/semphore.rs",
  "                if cur.is_unparked() {\n                    self.post();\n                } else {", "                if cur.is_unparked() {\n                } else {", "C10", 40000),
 ("M07 condvar: notify_one does not forward a released notification", "src/sync/condvar.rs",
  "            if w.take_release() {\n                self.notify_one();\n            }", "            if w.take_release() {\n            }", "C11", 40000),
 ("M08 condvar: enqueue after unlocking the mutex", "src/sync/condvar.rs",
  "        self.to_wake.push(cur.clone());\n\n        // unlock the mutex to let other continue\n        mutex::unlock_mutex(lock);",
  "        // unlock the mutex to let other continue\n        mutex::unlock_mutex(lock);\n        self.to_wake.push(cur.clone());", "C11", 40000),
 ("M09 join: wait without the re-check after registering", "src/join.rs",
  "            // re-check the state\n            if self.state.load(Ordering::Acquire) {",
  "            // re-check the state\n            if true {", "C01", 20000),
 ("M10 join: trigger takes the waiter before clearing state", "src/join.rs",
  "        self.state.store(false, Ordering::Release);\n        if let Some(w) = self.to_wake.take() {\n            w.unpark();\n        }",
  "        let w = self.to_wake.take();\n        self.state.store(false, Ordering::Release);\n        if let Some(w) = w {\n            w.unpark();\n        }", "C01", 40000),
 ("M11 mpsc chan: recv parks without re-checking the queue", "src/sync/mpsc.rs",
  "        match self.try_recv() {\n            Err(TryRecvError::Empty) => {\n                cur.park(dur).ok();\n            }",
  "        match Err::<T, TryRecvError>(TryRecvError::Empty) {\n            Err(TryRecvError::Empty) => {\n                cur.park(dur).ok();\n            }", "C06", 20000),
 ("M12 cqueue: poll parks without re-pop after registering", "src/cqueue.rs",
  "            match self.ev_queue.pop() {\n                None => {\n                    cur.park(timeout).ok();\n                }",
  "            match None::<Event> {\n                None => {\n                    cur.park(timeout).ok();\n                }", "C16", 20000),
 ("M13 scheduler: collect_global drops one task of a batch", "src/scheduler.rs",
  "            for co in v {\n                #[cfg(feature = \"work_steal\")]\n                local.push_back(co);",
  "            for co in v.into_iter().skip(1) {\n                #[cfg(feature = \"work_steal\")]\n                local.push_back(co);", "C01", 20000),
 ("M14 sem: waiter registers after decrementing", "src/sync/semphore.rs",
  "        self.to_wake.push(cur.clone());\n        // dec the cnt, if it's positive, unpark one waiter\n        if self.cnt.fetch_sub(1, Ordering::SeqCst) > 0 {\n            self.wakeup_one();\n        }",
  "        let old = self.cnt.fetch_sub(1, Ordering::SeqCst);\n        self.to_wake.push(cur.clone());\n        if old > 0 {\n            self.wakeup_one();\n        }", "C10", 40000),
 ("M15 timer: heap order reversed", "src/timeout_list.rs",
  "        other.time.cmp(&self.time)", "        self.time.cmp(&other.time)", "C08", 6000),
 ("M16 mpsc chan: send does not wake the receiver", "src/sync/mpsc.rs",
  "        self.queue.push(t);\n        if let Some(w) = self.to_wake.take() {\n            w.unpark();\n        }\n        Ok(())",
  "        self.queue.push(t);\n        if let Some(w) = self.to_wake.take() {\n            if false { w.unpark(); }\n        }\n        Ok(())", "C06", 6000),
 ("M17 mpsc chan: drop_chan does not unpark", "src/sync/mpsc.rs",
  "            1 => self.to_wake.take().map(|w| w.unpark()).unwrap_or(()),", "            1 => (),", "C07", 20000),
 ("M18 rwlock: read_unlock does not release at zero", "src/sync/rwlock.rs",
  "        *r -= 1;\n        if *r == 0 {\n            self.unlock();\n        }", "        *r -= 1;\n        if *r == 0 && false {\n            self.unlock();\n        }", "C12", 6000),
 ("M19 cancel: Mutex::lock does not pass the lock on when cancelled after hand-off", "src/sync/mutex.rs",
  "                    if cur.is_unparked() {\n                        if b_ignore {\n                            break;\n                        }\n                        self.unlock();",
  "                    if cur.is_unparked() {\n                        if b_ignore {\n                            break;\n                        }", "C09", 60000),
 ("M20 cancel: semaphore does not re-post when cancelled after being unparked", "src/sync/semphore.rs",
  "                    // re-check unpark status\n                    if cur.is_unparked() && cur.take_release() {\n                        self.post();\n                    }",
  "                    // re-check unpark status\n                    if cur.is_unparked() && cur.take_release() {\n                    }", "C09", 60000),
 ("M21 poison: cancel unwinding poisons the lock", "src/sync/poison.rs",
  "            if !is_canceled {\n                self.failed.store(1, Ordering::Relaxed);", "            if !is_canceled || true {\n                self.failed.store(1, Ordering::Relaxed);", "C09", 20000),
 ("M22 barrier-ish: WaitGroup drop notifies only one waiter", "src/sync/wait_group.rs",
  "        if *count == 0 {\n            self.inner.cvar.notify_all();", "        if *count == 0 {\n            self.inner.cvar.notify_one();", "C11", 40000),
 ("M24 panic: join triggered before the panic data is set", "src/coroutine_impl.rs",
  "            if let Some(panic) = co.get_panic_data() {\n                join.set_panic_data(panic);\n            }\n            // trigger the join here\n            join.trigger();",
  "            join.trigger();\n            if let Some(panic) = co.get_panic_data() {\n                join.set_panic_data(panic);\n            }", "C13", 60000),
 ("M25 poison: a panicking guard drop does not poison (is_canceled check inverted)", "src/sync/poison.rs",
  "            if !is_canceled {\n                self.failed.store(1, Ordering::Relaxed);", "            if is_canceled {\n                self.failed.store(1, Ordering::Relaxed);", "C13", 6000),
 ("M26 rwlock: write guard does not record the poison", "src/sync/rwlock.rs",
  "        self.__lock.poison.done(&self.__poison);\n        self.__lock.write_unlock();", "        self.__lock.write_unlock();", "C13", 6000),
 ("M27 scope: child panic swallowed (no resume_unwind in join)", "src/scoped.rs",
  "                res.unwrap_or_else(|e| panic::resume_unwind(e));", "                let _ = res;", "C13", 20000),
 ("M28 cqueue: Finished without re-checking the queue", "src/cqueue.rs",
  "                        match self.ev_queue.pop() {\n                            Some(mut ev) => run_ev!(ev),\n                            None => return Err(PollError::Finished),\n                        }",
  "                        return Err(PollError::Finished);", "C16", 100000),
 ("M29 cqueue: EventSender::drop decrements before pushing Done", "src/cqueue.rs",
  "            kind: EventKind::Done,\n            co: None,\n        });\n        self.cqueue.cnt.fetch_sub(1, Ordering::Relaxed);",
  "            kind: EventKind::Done,\n            co: None,\n        });", "C16", 20000),
 ("M30 scope: cancel not disabled while joining", "src/scoped.rs",
  "    if let Some(c) = cancel {\n        c.disable_cancel();\n    }\n    // a join re-raises", "    // a join re-raises", "C14", 20000),
 ("M31 spawn: packet stored after the join is triggered", "src/coroutine_impl.rs",
  "            their_packet.store(f());\n\n            their_join.trigger();", "            let r = f();\n            their_join.trigger();\n            their_packet.store(r);", "C01", 60000),
 ("M32 cancel: stale coroutine para not consumed before the Cancel panic", "src/cancel.rs",
  "            get_co_para();\n            // when in panic we use", "            // when in panic we use", "C15", 30000),
 ("M33 local: coroutine-local data leaked (box forgotten in drop_coroutine)", "src/coroutine_impl.rs",
  "        let local = unsafe { Box::from_raw(get_co_local(&co)) };\n        let name = local.get_co().name();\n",
  "        let local = std::mem::ManuallyDrop::new(unsafe { Box::from_raw(get_co_local(&co)) });\n        let name = local.get_co().name();\n", "C15", 6000),
 ("M34 sleep: the timeout result is not consumed after a sleep", "src/sleep.rs",
  "    // consume the timeout error\n    get_co_para();", "    // consume the timeout error", "C15", 30000),
 ("M40 mpsc queue: pop reports empty on a reserved but unwritten slot", "may_queue/src/mpsc.rs",
  "                if pop_index >= self.push_index() {\n                    return None;\n                } else {\n                    head.get(id)\n                }",
  "                if pop_index >= self.push_index() || true {\n                    return None;\n                } else {\n                    head.get(id)\n                }", "C03", 40000),
 ("M41 mpsc queue: ready flag published before the value is written", "may_queue/src/mpsc.rs",
  "            #[cfg(may_verif)]\n            crate::verif::point();\n            data.value.get().write(MaybeUninit::new(v));\n\n            std::sync::atomic::fence(Ordering::Release);\n            // mark the data ready\n            data.ready.store(1, Ordering::Release);",
  "            data.ready.store(1, Ordering::Release);\n            #[cfg(may_verif)]\n            crate::verif::point();\n            data.value.get().write(MaybeUninit::new(v));", "C03", 40000),
 ("M42 spsc queue: tail index published before the slot is written", "may_queue/src/spsc.rs",
  "        // store the data\n        tail.set(push_index, v);\n\n        // alloc new block node if the tail is full\n        let new_index = push_index.wrapping_add(1);",
  "        let new_index = push_index.wrapping_add(1);\n        if new_index & BLOCK_MASK != 0 {\n            self.tail.index.store(new_index, Ordering::Release);\n        }\n        // store the data\n        tail.set(push_index, v);\n", "C03", 40000),
 ("M43 mpsc queue: old block freed at once (no delayed drop)", "may_queue/src/mpsc.rs",
  "        self.head.index.store(pop_index + 1, Ordering::Relaxed);\n\n        if id == BLOCK_MASK {\n            // we need to delay the drop of the block to let the push's `wait_next_block` return\n            let old_block = unsafe { &mut *(self.old_block.get()) };\n            old_block.replace(unsafe { Box::from_raw(head) });\n\n            let next_block = head.wait_next_block();",
  "        self.head.index.store(pop_index + 1, Ordering::Relaxed);\n\n        if id == BLOCK_MASK {\n            let next_block = head.wait_next_block();\n            drop(unsafe { Box::from_raw(head as *mut BlockNode<T>) });", "C03", 100000),
 ("M44 control: a no-op edit of steal_into (must survive)", "may_queue/src/spmc.rs",
  "        let ret = v.pop();\n        for t in v {", "        let ret = v.pop();\n        for t in v.into_iter().skip(0) {", "C04", 100),
 ("M45 spmc: ABA wait loop removed in bulk_pop", "may_queue/src/spmc.rs",
  "                        while end > self.tail.index.load(Ordering::Acquire) {", "                        while false && end > self.tail.index.load(Ordering::Acquire) {", "C04", 200000),
 ("M46 spmc: ABA wait loop removed in pop", "may_queue/src/spmc.rs",
  "                        while pop_index >= self.tail.index.load(Ordering::Acquire) {", "                        while false && pop_index >= self.tail.index.load(Ordering::Acquire) {", "C04", 200000),
 ("M47 spmc: head not restored after over-claiming the last slot (bulk_pop)", "may_queue/src/spmc.rs",
  "                        if pop_index >= push_index {\n                            // recover the old head, and return None\n                            self.head.0.store(head, Ordering::Release);\n                            return SmallVec::new();",
  "                        if pop_index >= push_index {\n                            // recover the old head, and return None\n                            return SmallVec::new();", "C04", 100000),
 ("M48 spmc: bulk_pop marks one slot too few as read", "may_queue/src/spmc.rs",
  "                    if block.mark_slots_read(end - pop_index) {", "                    if block.mark_slots_read(end - pop_index - 1) {", "C04", 100000),
 ("M49 list: remove acts although next is null", "may_queue/src/mpsc_list_v1.rs",
  "            if !next.is_null() {\n                // clear the link bit", "            if !next.is_null() || true {\n                // clear the link bit", "C19", 40000),
 ("M50 list: pop does not reset prev of the new tail", "may_queue/src/mpsc_list_v1.rs",
  "            (*next).prev = ptr::null_mut();\n            // move the tail to next\n            *self.tail.get() = next;\n\n            assert!((*tail).value.is_none());\n            assert!((*next).value.is_some());\n            // we tack the next value, this is why use option to host the value\n            let ret = (*next).value.take().unwrap();\n            (*tail).refs -= 1;\n            if (*tail).refs == 0 {\n                // release the node only when the ref count becomes 0\n                let _: Box<Node<T>> = Box::from_raw(tail);\n            }\n\n            Some(ret)\n        }\n    }\n}\n\nimpl<T> Default",
  "            // move the tail to next\n            *self.tail.get() = next;\n\n            assert!((*tail).value.is_none());\n            assert!((*next).value.is_some());\n            // we tack the next value, this is why use option to host the value\n            let ret = (*next).value.take().unwrap();\n            (*tail).refs -= 1;\n            if (*tail).refs == 0 {\n                // release the node only when the ref count becomes 0\n                let _: Box<Node<T>> = Box::from_raw(tail);\n            }\n\n            Some(ret)\n        }\n    }\n}\n\nimpl<T> Default", "C19", 40000),
 ("M51 list: push reports is_head for every entry", "may_queue/src/mpsc_list_v1.rs",
  "            let is_head = std::ptr::eq(tail, prev);", "            let is_head = std::ptr::eq(tail, prev) || true;", "C19", 20000),
 ("M23 atomic_dur: truncating milliseconds again", "src/sync/atomic_dur.rs",
  "        let ms = d.as_nanos().div_ceil(1_000_000);", "        let ms = d.as_nanos() / 1_000_000;", "C08", 6000),
 ("M52 io: socket read subscribe without the io_flag re-check", "src/io/sys/unix/net/socket_read.rs", '        if io_data.io_flag.load(Ordering::Acquire) != 0 {', '        if false && io_data.io_flag.load(Ordering::Acquire) != 0 {', "C17", 20000),
 ("M53 io: socket write subscribe without the io_flag re-check", "src/io/sys/unix/net/socket_write.rs", '        if io_data.io_flag.load(Ordering::Acquire) != 0 {', '        if false && io_data.io_flag.load(Ordering::Acquire) != 0 {', "C17", 20000),
 ("M54 io: selector sets io_flag only when it found a coroutine", "src/io/sys/unix/epoll.rs",
  "            data.io_flag.fetch_or(events, Ordering::Release);\n\n            // first check the atomic co, this may be grab by the worker first\n            let co = match data.co.take() {\n                Some(co) => co,\n                None => continue,\n            };",
  "            // first check the atomic co, this may be grab by the worker first\n            let co = match data.co.take() {\n                Some(co) => co,\n                None => continue,\n            };\n            data.io_flag.fetch_or(events, Ordering::Release);", "C17", 20000),
 ("M55 io: tcp accept subscribe without the io_flag re-check", "src/io/sys/unix/net/tcp_listener_accept.rs", '        if io_data.io_flag.load(Ordering::Acquire) != 0 {', '        if false && io_data.io_flag.load(Ordering::Acquire) != 0 {', "C17", 20000),
 ("M56 io: selector does not disarm the io timer of a completed operation", "src/io/sys/unix/epoll.rs",
  "                    h.with_mut_data(|value| value.data.event_data = std::ptr::null_mut());\n                }\n                h.remove()",
  "                    h.with_mut_data(|_value| ());\n                }\n                h.remove()", "C18", 20000),
 ("M59 io: socket read subscribe without the cancel re-check", "src/io/sys/unix/net/socket_read.rs",
  "        if cancel.is_canceled() {\n            io_data.schedule();\n        }",
  "        if false && cancel.is_canceled() {\n            io_data.schedule();\n        }", "C18", 40000),
 ("M63 io: udp recv_from subscribe without the io_flag re-check", "src/io/sys/unix/net/udp_recv_from.rs", '        if io_data.io_flag.load(Ordering::Acquire) != 0 {', '        if false && io_data.io_flag.load(Ordering::Acquire) != 0 {', "C17", 20000),
 ("M64 io: unix accept subscribe without the io_flag re-check", "src/io/sys/unix/net/unix_listener_accept.rs", '        if io_data.io_flag.load(Ordering::Acquire) != 0 {', '        if false && io_data.io_flag.load(Ordering::Acquire) != 0 {', "C17", 20000),
 ("M65 io: wait_io subscribe without the io_flag re-check", "src/io/sys/unix/wait_io.rs", '        if io_data.io_flag.load(Ordering::Acquire) != 0 {', '        if false && io_data.io_flag.load(Ordering::Acquire) != 0 {', "C17", 40000),
 ("M66 io: io timer armed 300 us short", "src/io/sys/unix/epoll.rs",
  "        let (h, b_new) = self.vec[id].timer_list.add_timer(timeout, io.timer_data());",
  "        let (h, b_new) = self.vec[id].timer_list.add_timer(timeout.saturating_sub(Duration::from_micros(300)), io.timer_data());", "C18", 20000),
 ("M67 io: fast_schedule does not disarm the io timer", "src/io/sys/unix/mod.rs",
  "    pub fn fast_schedule(&self) {\n        let co = match self.co.take() {\n            Some(co) => co,\n            None => return, // it's already take by selector\n        };\n\n        // tell the timer function not to cancel the io. the entry can't be removed here:\n        // this is not the selector thread that consumes the timer list, and only the\n        // consumer may unlink entries, so it stays there disarmed until it expires\n        #[cfg(feature = \"io_timeout\")]\n        if let Some(h) = self.timer.borrow_mut().take() {",
  "    pub fn fast_schedule(&self) {\n        let co = match self.co.take() {\n            Some(co) => co,\n            None => return, // it's already take by selector\n        };\n\n        #[cfg(feature = \"io_timeout\")]\n        if let Some(h) = None::<TimerHandle> {", "C18", 40000),
 ("M68 io: CoIo closes its fd before the selector forgets it (field order)", "src/io/sys/unix/co_io.rs",
  "    io: io_impl::IoData,\n    inner: T,\n    #[cfg(feature = \"io_timeout\")]\n    read_timeout: AtomicDuration,",
  "    inner: T,\n    io: io_impl::IoData,\n    #[cfg(feature = \"io_timeout\")]\n    read_timeout: AtomicDuration,", "C17", 40000),
 ("M69 selector: local queue not run again after the io time-out handlers", "src/io/sys/unix/epoll.rs",
  "            if !scheduler.has_queued_tasks(id) {", "            if !scheduler.has_queued_tasks(id) || id < usize::MAX {", "C18", 40000),
 ("M70 spsc chan: the drop wait of Park is a cancellation point again", "src/sync/spsc.rs",
  "            let cancel = if is_coroutine() && !std::thread::panicking() {", "            let cancel = if is_coroutine() && !std::thread::panicking() && self.queue.channels.load(Ordering::Relaxed) > 9 {", "C07", 300000),
 ("M71 timer: deadline of a timed wait wraps for the largest durations", "src/timeout_list.rs",
  "let time = now().saturating_add(interval);", "let time = now().wrapping_add(interval);", "C08", 40000),
]

def run(cmd, **kw):
    return subprocess.run(cmd, shell=True, capture_output=True, text=True, **kw)

def main():
    only = sys.argv[1:]
    assert run(f"git -C {REPO} status --porcelain --untracked-files=no").stdout.strip() == "", "repo not clean"
    for name, f, old, new, prop, cases in M:
        if only and not any(name.startswith(o) for o in only):
            continue
        p = os.path.join(REPO, f)
        src = open(p).read()
        if src.count(old) != 1:
            print(f"SKIP (pattern matches {src.count(old)} times) {name}")
            continue
        open(p, 'w').write(src.replace(old, new, 1))
        try:
            t = time.time()
            r = run(f"cd /verif && ./check {prop} --cases {cases} 2>&1")
            out = r.stdout
            viol = re.findall(r"^violation: (.{0,90})", out, re.M)
            m = re.search(r"(\d+) cases,", out)
            status = "KILLED  " if r.returncode == 1 else ("SURVIVED" if r.returncode == 0 else f"EXIT{r.returncode}   ")
            print(f"{status} {name} [{prop}] after {m.group(1) if m else '?'} cases, {time.time()-t:.0f}s :: {viol[:2]}")
            if r.returncode not in (0, 1):
                print(out[-600:])
        finally:
            open(p, 'w').write(src)
    pass

main()
